(* Prov.v — C01: every record the updater keeps was issued by an install whose inflated download
   passed the hash gate, and records that file's length (I-prov), for every history with damage. *)
From UV Require Import Base Codec Model PMLemmas Inv Ban Handout Calls Frame Frames2.
Arguments N.eqb : simpl never.

Section Prov.
Variable sha : bytes -> bytes.
Variable sigok : string -> string -> string -> bool.
Variable zdec : bytes -> bytes.
Variable base : bytes.

Notation fall_back := (fall_back sha sigok).
Notation next_boot := (next_boot sha sigok).
Notation boot_failure := (boot_failure sha sigok).
Notation rollback_loop := (rollback_loop sha sigok).
Notation cs_next := (cs_next sha sigok).
Notation cs_start := (cs_start sha sigok).
Notation cs_failure := (cs_failure sha sigok).
Notation cs_init_recover := (cs_init_recover sha sigok).
Notation cs_rollback := (cs_rollback sha sigok).
Notation should_install := (should_install sha sigok).
Notation do_check := (do_check sha sigok).
Notation do_update := (do_update sha sigok zdec base).
Notation step := (step sha sigok zdec base).
Notation inflate := (inflate zdec base).
Notation hash_ok := (hash_ok sha).

(* every record on disk is among [iss] *)
Definition Prov (iss : list meta) (d : disk) : Prop :=
  forall m, In (Some m) (slots (load_p d)) -> In m iss.

Lemma Prov_sub iss d d' : SlotsSub d d' -> Prov iss d -> Prov iss d'.
Proof. intros Hs Hp m Hm. apply Hp, Hs, Hm. Qed.

Lemma Prov_mono iss iss' d : incl iss iss' -> Prov iss d -> Prov iss' d.
Proof. intros Hi Hp m Hm. apply Hi, Hp, Hm. Qed.

Lemma slots_empty m : ~ In (Some m) (slots pempty).
Proof. unfold slots. cbn. intuition discriminate. Qed.

Lemma SlotsSub_norm c d : SlotsSub d (norm c d).
Proof.
  destruct (norm_cases c d) as [-> | ->]; [apply SlotsSub_refl|].
  intros m Hm. exfalso. eapply slots_empty. exact Hm.
Qed.

(* critical sections start with norm: it is enough to know them on normalised disks *)
Lemma norm_first (f : cfg -> disk -> disk) c d :
  (forall d0, f c d0 = f c (norm c d0)) -> (forall d0, stable (c_rel c) d0 -> SlotsSub d0 (f c d0)) ->
  SlotsSub d (f c d).
Proof.
  intros Hn Hs. rewrite Hn. eapply SlotsSub_trans; [apply SlotsSub_norm|]. apply Hs, norm_stable.
Qed.

Lemma cs_next_norm c d : cs_next c d = cs_next c (norm c d).
Proof. unfold Model.cs_next. rewrite norm_idem. reflexivity. Qed.
Lemma cs_start_norm c d : cs_start c d = cs_start c (norm c d).
Proof. unfold Model.cs_start. rewrite norm_idem. reflexivity. Qed.
Lemma cs_success_norm c d : cs_success c d = cs_success c (norm c d).
Proof. unfold Model.cs_success. rewrite norm_idem. reflexivity. Qed.
Lemma cs_failure_norm c d : cs_failure c d = cs_failure c (norm c d).
Proof. unfold Model.cs_failure. rewrite norm_idem. reflexivity. Qed.
Lemma cs_init_recover_norm c d : cs_init_recover c d = cs_init_recover c (norm c d).
Proof. unfold Model.cs_init_recover. rewrite norm_idem. reflexivity. Qed.
Lemma cs_rollback_norm c d l : cs_rollback c d l = cs_rollback c (norm c d) l.
Proof. unfold Model.cs_rollback. rewrite norm_idem. reflexivity. Qed.
Lemma should_install_norm c d n : should_install c d n = should_install c (norm c d) n.
Proof. unfold Model.should_install, Model.cs_is_bad. rewrite norm_idem. reflexivity. Qed.
Lemma cs_clear_events_norm c d : cs_clear_events c d = cs_clear_events c (norm c d).
Proof. unfold Model.cs_clear_events. rewrite norm_idem. reflexivity. Qed.
Lemma cs_install_norm c d p b : cs_install c d p b = cs_install c (norm c d) p b.
Proof. unfold Model.cs_install. rewrite norm_idem. reflexivity. Qed.

Lemma S_cs_next c d : SlotsSub d (fst (cs_next c d)).
Proof.
  rewrite cs_next_norm. eapply SlotsSub_trans; [apply SlotsSub_norm|].
  apply cs_next_SlotsSub, norm_stable.
Qed.

Lemma S_cs_rollback c d l : SlotsSub d (cs_rollback c d l).
Proof.
  rewrite cs_rollback_norm. eapply SlotsSub_trans; [apply SlotsSub_norm|].
  apply cs_rollback_SlotsSub, norm_stable.
Qed.

Lemma S_should_install c d n : SlotsSub d (fst (should_install c d n)).
Proof.
  rewrite should_install_norm. eapply SlotsSub_trans; [apply SlotsSub_norm|].
  apply should_install_SlotsSub, norm_stable.
Qed.

Lemma S_cs_clear c d : SlotsSub d (cs_clear_events c d).
Proof.
  rewrite cs_clear_events_norm. eapply SlotsSub_trans; [apply SlotsSub_norm|].
  apply cs_clear_events_SlotsSub, norm_stable.
Qed.

Lemma S_cs_start c d : SlotsSub d (cs_start c d).
Proof.
  rewrite cs_start_norm. eapply SlotsSub_trans; [apply SlotsSub_norm|]. unfold Model.cs_start. rewrite norm_idem. set (d0 := norm c d). cbv zeta.
  pose proof (next_boot_slots sha sigok (c_key c) d0 (load_p d0)) as H.
  destruct (next_boot (c_key c) d0 (load_p d0)) as [[d1 s1] r] eqn:E. cbn in H.
  destruct r as [n|].
  - intros m Hm. rewrite load_save in Hm. apply H. unfold slots in *. cbn in *. intuition.
  - intros m Hm. rewrite (next_boot_load _ _ _ _ _ _ _ E) in Hm. apply H, Hm.
Qed.

Lemma S_cs_success c d : SlotsSub d (fst (cs_success c d)).
Proof.
  rewrite cs_success_norm. eapply SlotsSub_trans; [apply SlotsSub_norm|]. unfold Model.cs_success. rewrite norm_idem. set (d0 := norm c d). cbv zeta.
  destruct (cb (load_p d0)) as [b|] eqn:E; cbn; [|apply SlotsSub_refl].
  unfold boot_success. rewrite ?E. cbn. intros m Hm. rewrite ?load_save in Hm. fold d0.
  unfold slots in *. cbn in Hm. rewrite E. cbn. intuition (try discriminate).
Qed.

Lemma boot_failure_slots key d s n a :
  In (Some a) (slots (snd (boot_failure key d s n))) -> In (Some a) (slots s).
Proof.
  unfold Model.boot_failure. intros H. apply fall_back_slots in H.
  unfold slots in *. cbn in *. intuition discriminate.
Qed.

Lemma S_cs_failure c d : SlotsSub d (fst (cs_failure c d)).
Proof.
  rewrite cs_failure_norm. eapply SlotsSub_trans; [apply SlotsSub_norm|]. unfold Model.cs_failure. rewrite norm_idem. set (d0 := norm c d). cbv zeta.
  destruct (cb (load_p d0)) as [b|] eqn:E; cbn; [|apply SlotsSub_refl].
  pose proof (boot_failure_slots (c_key c) d0 (load_p d0) (m_num b)) as H.
  pose proof (boot_failure_saved sha sigok (c_key c) d0 (load_p d0) (m_num b)) as H2.
  destruct (boot_failure (c_key c) d0 (load_p d0) (m_num b)) as [d1 s1]. cbn in *.
  intros m Hm. unfold queue_event in Hm. rewrite load_set_sj, (load_of_pj _ _ H2) in Hm. apply H, Hm.
Qed.

Lemma S_cs_init_recover c d : SlotsSub d (cs_init_recover c d).
Proof.
  rewrite cs_init_recover_norm. eapply SlotsSub_trans; [apply SlotsSub_norm|]. unfold Model.cs_init_recover. rewrite norm_idem. set (d0 := norm c d). cbv zeta.
  destruct (cb (load_p d0)) as [b|] eqn:E; cbn; [|apply SlotsSub_refl].
  pose proof (boot_failure_slots (c_key c) d0 (load_p d0) (m_num b)) as H.
  pose proof (boot_failure_saved sha sigok (c_key c) d0 (load_p d0) (m_num b)) as H2.
  destruct (boot_failure (c_key c) d0 (load_p d0) (m_num b)) as [d1 s1]. cbn in *.
  intros m Hm. unfold queue_event in Hm. rewrite load_set_sj, (load_of_pj _ _ H2) in Hm. apply H, Hm.
Qed.

(* an install adds exactly one record: the one built from the verified file *)
Lemma S_cs_install c d p out m :
  In (Some m) (slots (load_p (fst (cs_install c d p out)))) ->
  (snd (cs_install c d p out) = UInstalled /\ m = new_meta p out) \/ In (Some m) (slots (load_p d)).
Proof.
  rewrite cs_install_norm. intros H.
  assert (Hn : In (Some m) (slots (load_p (norm c d))) -> In (Some m) (slots (load_p d))) by apply SlotsSub_norm.
  unfold Model.cs_install in *. rewrite norm_idem in *.
  destruct (inb (p_num p) (bad (load_p (norm c d)))); cbn in H; [right; auto|].
  rewrite ?load_save in H. unfold slots in *. cbn in H.
  destruct H as [H|[H|[H|[]]]].
  - right. apply Hn. left. exact H.
  - left. injection H as <-. split; reflexivity.
  - right. apply Hn. right. right. left. exact H.
Qed.

Lemma S_do_check c d ch r : SlotsSub d (fst (fst (do_check c d ch r))).
Proof.
  unfold Model.do_check. destruct r as [rs|]; cbn [fst]; [|apply SlotsSub_refl].
  set (d1 := match r_rb rs with Some l => cs_rollback c d l | None => d end).
  assert (H1 : SlotsSub d d1) by (unfold d1; destruct (r_rb rs); [apply S_cs_rollback|apply SlotsSub_refl]).
  destruct (r_patch rs) as [p|]; cbn [fst]; auto.
  pose proof (S_should_install c d1 (p_num p)) as H2.
  destruct (should_install c d1 (p_num p)). cbn in *. eapply SlotsSub_trans; eauto.
Qed.

(* the verified facts an issued record carries *)
Definition issued_ok (m : meta) : Prop :=
  exists bdl out, inflate bdl = Some out /\ hash_ok out (m_hash m) = true /\ m_size m = blen out.

Lemma S_do_update c d ch r dl m :
  In (Some m) (slots (load_p (fst (fst (do_update c d ch r dl))))) ->
  In (Some m) (slots (load_p d)) \/
  (snd (fst (do_update c d ch r dl)) = UInstalled /\ issued_ok m).
Proof.
  unfold Model.do_update. cbn [cs_copy_events].
  set (d1 := cs_clear_events c (norm c d)).
  assert (H1 : SlotsSub d d1).
  { unfold d1. eapply SlotsSub_trans; [apply SlotsSub_norm|apply S_cs_clear]. }
  destruct r as [rs|]; cbn [fst snd]; [|intros H; left; apply H1, H].
  set (d2 := match r_rb rs with Some l => cs_rollback c d1 l | None => d1 end).
  assert (H2 : SlotsSub d d2).
  { unfold d2. destruct (r_rb rs); [eapply SlotsSub_trans; [exact H1|apply S_cs_rollback]|exact H1]. }
  destruct (negb (r_avail rs)); cbn [fst snd]; [intros H; left; apply H2, H|].
  destruct (r_patch rs) as [p|]; cbn [fst snd]; [|intros H; left; apply H2, H].
  pose proof (S_should_install c d2 (p_num p)) as H3.
  destruct (should_install c d2 (p_num p)) as [d3 sh]. cbn [fst] in H3.
  assert (H3' : SlotsSub d d3) by (eapply SlotsSub_trans; eauto).
  destruct sh; cbn [fst snd]; try (intros H; left; apply H3', H).
  destruct dl as [bdl|]; cbn [fst snd]; [|intros H; left; apply H3', H].
  destruct (inflate bdl) as [out|] eqn:Ei; cbn [fst snd]; [|intros H; left; apply H3', H].
  destruct (hash_ok out (p_hash p)) eqn:Eh; cbn [fst snd]; [|intros H; left; apply H3', H].
  pose proof (S_cs_install c d3 p out m) as H4.
  destruct (cs_install c d3 p out) as [d4 st]; cbn [fst snd] in *. intros H.
  destruct (H4 H) as [[-> ->] | Hin]; [|left; apply H3', Hin].
  right. split; [reflexivity|]. exists bdl, out. repeat split; auto.
Qed.

(* ---------- the invariant over histories ---------- *)

(* I-prov: every record the disk holds was written by an install that verified the file *)
Definition AllOk (d : disk) : Prop := forall m, In (Some m) (slots (load_p d)) -> issued_ok m.

Lemma AllOk_sub d d' : SlotsSub d d' -> AllOk d -> AllOk d'.
Proof. intros Hs Ha m Hm. apply Ha, Hs, Hm. Qed.

Lemma AllOk_fresh r : AllOk (fresh_disk r).
Proof. intros m Hm. exfalso. eapply slots_empty. exact Hm. Qed.

(* damage: anything goes for the artifacts, state.json and junk; patches_state.json may vanish, turn
   to garbage, or be replaced by a file whose records were all once issued (a stale copy is one) *)
Definition ok_op (o : op) : Prop :=
  match o with
  | ODamage (DSetPj (JOk v)) => forall m, In (Some m) (slots v) -> issued_ok m
  | _ => True
  end.

Lemma load_p_missing d v : (forall s, v <> JOk s) -> load_p (set_pj d v) = pempty.
Proof. unfold load_p. cbn. destruct v; intros H; try reflexivity. exfalso. eapply H. reflexivity. Qed.

Lemma AllOk_damage d g : ok_op (ODamage g) -> AllOk d -> AllOk (apply_damage d g).
Proof.
  intros Hok Ha. destruct g as [n|n|n b|v|v|]; cbn [apply_damage]; try exact Ha.
  - destruct (arts d n); exact Ha.
  - destruct v as [| |s].
    + intros m Hm. exfalso. eapply slots_empty. exact Hm.
    + intros m Hm. exfalso. eapply slots_empty. exact Hm.
    + intros m Hm. apply Hok. exact Hm.
Qed.

Theorem step_prov w o :
  ok_op o -> AllOk (w_disk w) -> AllOk (w_disk (fst (fst (step w o)))).
Proof.
  intros Hok Ha. unfold Model.step.
  destruct o as [relv y pk| | | | | | | | |ch r|ch r dl|g]; cbn [fst].
  - destruct (cfg_of relv y) as [c|]; cbn [fst]; auto.
    destruct (negb pk); cbn [fst]; auto. destruct (w_cfg w); cbn [fst w_disk]; auto.
    eapply AllOk_sub; [apply S_cs_init_recover|exact Ha].
  - exact Ha.
  - destruct (w_cfg w) as [c|]; cbn [fst]; auto.
    pose proof (S_cs_next c (w_disk w)) as H. destruct (cs_next c (w_disk w)). cbn [fst w_disk] in *.
    eapply AllOk_sub; eauto.
  - destruct (w_cfg w) as [c|]; cbn [fst]; auto.
    pose proof (S_cs_next c (w_disk w)) as H. destruct (cs_next c (w_disk w)). cbn [fst w_disk] in *.
    eapply AllOk_sub; eauto.
  - destruct (w_cfg w) as [c|]; cbn [fst]; auto. unfold cs_current. cbn [fst w_disk].
    eapply AllOk_sub; [apply SlotsSub_norm|exact Ha].
  - destruct (w_cfg w) as [c|]; cbn [fst w_disk]; auto.
    eapply AllOk_sub; [apply S_cs_start|exact Ha].
  - destruct (w_cfg w) as [c|]; cbn [fst]; auto.
    pose proof (S_cs_success c (w_disk w)) as H. destruct (cs_success c (w_disk w)). cbn [fst w_disk] in *.
    eapply AllOk_sub; eauto.
  - destruct (w_cfg w) as [c|]; cbn [fst]; auto.
    pose proof (S_cs_failure c (w_disk w)) as H. destruct (cs_failure c (w_disk w)). cbn [fst w_disk] in *.
    eapply AllOk_sub; eauto.
  - destruct (w_cfg w) as [c|]; cbn [fst]; auto.
  - destruct (w_cfg w) as [c|]; cbn [fst]; auto.
    pose proof (S_do_check c (w_disk w) ch r) as H. destruct (do_check c (w_disk w) ch r) as [[d' b] l].
    cbn [fst w_disk] in *. eapply AllOk_sub; eauto.
  - destruct (w_cfg w) as [c|]; cbn [fst]; auto.
    pose proof (fun m => S_do_update c (w_disk w) ch r dl m) as H.
    destruct (do_update c (w_disk w) ch r dl) as [[d' u] l]. cbn [fst snd w_disk] in *.
    intros m Hm. destruct (H m Hm) as [Hin|[_ Hi]]; auto.
  - cbn [w_disk]. apply AllOk_damage; assumption.
Qed.

Theorem run_prov ops : forall w,
  Forall ok_op ops -> AllOk (w_disk w) -> AllOk (w_disk (fst (run sha sigok zdec base w ops))).
Proof.
  induction ops as [|o r IH]; intros w Hf Ha; cbn [run fst]; [exact Ha|].
  inversion Hf as [|? ? Ho Hr]; subst.
  pose proof (step_prov w o Ho Ha) as H1.
  destruct (step w o) as [[w1 x] l]. cbn [fst] in H1.
  specialize (IH w1 Hr H1). destruct (run sha sigok zdec base w1 r) as [w2 t]. exact IH.
Qed.

(* a stale copy of any earlier patches_state.json is admissible damage *)
Lemma stale_is_ok d : AllOk d -> ok_op (ODamage (DSetPj (JOk (load_p d)))).
Proof. intros Ha m Hm. apply Ha, Hm. Qed.

(* C01, end to end: after any history of calls and admissible damage from a disk whose records were
   issued, the file a query hands out has exactly the length of the inflated download that passed
   the hash gate when that record was installed. *)
Theorem handout_size_provenance w0 ops o w' x log n :
  AllOk (w_disk w0) -> Forall ok_op ops ->
  step (fst (run sha sigok zdec base w0 ops)) o = (w', x, log) -> reports o x n ->
  exists m b bdl out,
    nb (load_p (w_disk w')) = Some m /\ m_num m = n /\
    arts (w_disk w') n = Some (AFile b) /\
    inflate bdl = Some out /\ hash_ok out (m_hash m) = true /\ blen b = blen out.
Proof.
  intros Ha Hf Hs Hr.
  pose proof (run_prov ops w0 Hf Ha) as H1.
  assert (Hok : ok_op o) by (destruct Hr as [(-> & _)|(-> & _)]; exact I).
  pose proof (step_prov _ o Hok H1) as H2. rewrite Hs in H2. cbn [fst] in H2.
  destruct (step_handout sha sigok zdec base _ _ _ _ _ _ Hs Hr) as (c & _ & m & b & Hnb & Hnum & Hart & Hlen & _).
  destruct (H2 m) as (bdl & out & Hi & Hh & Hsz).
  { unfold slots. rewrite Hnb. right. left. reflexivity. }
  exists m, b, bdl, out. repeat split; auto. congruence.
Qed.

End Prov.
