(* LockOrder.v — C12, static half: a checker over the call-site table regenerated from library/src
   (gen/LockSites.v).  "On the calling thread" reachability is a least fixpoint over the call table,
   ignoring calls made inside thread::spawn closures. *)
From Coq Require Import List String Bool Arith.
Import ListNotations.
Open Scope string_scope.

Definition csite := (string * string * bool * bool * bool)%type.
Definition cs_caller (s : csite) : string := let '(a, _, _, _, _) := s in a.
Definition cs_callee (s : csite) : string := let '(_, b, _, _, _) := s in b.
Definition cs_cfg (s : csite) : bool := let '(_, _, c, _, _) := s in c.
Definition cs_upd (s : csite) : bool := let '(_, _, _, u, _) := s in u.
Definition cs_spawn (s : csite) : bool := let '(_, _, _, _, p) := s in p.

Definition mem (x : string) (l : list string) : bool := existsb (String.eqb x) l.

Definition lockers : list string := ["with_config"; "with_config_mut"; "with_state"; "with_mut_state"].
Definition upd_locker : string := "with_updater_thread_lock".
Definition is_net (c : string) : bool := String.prefix "NET:" c.

(* callers that do [target] directly, on their own thread *)
Definition direct (calls : list csite) (target : string -> bool) : list string :=
  fold_right (fun s acc => if negb (cs_spawn s) && target (cs_callee s) && negb (mem (cs_caller s) acc)
                           then cs_caller s :: acc else acc) [] calls.

(* one round: add every caller of a member *)
Definition grow (calls : list csite) (S : list string) : list string :=
  fold_right (fun s acc => if negb (cs_spawn s) && mem (cs_callee s) S && negb (mem (cs_caller s) acc)
                           then cs_caller s :: acc else acc) S calls.

Fixpoint iterate (n : nat) (calls : list csite) (S : list string) : list string :=
  match n with O => S | S n' => iterate n' calls (grow calls S) end.

Definition reach (calls : list csite) (fns : list string) (target : string -> bool) : list string :=
  iterate (List.length fns) calls (direct calls target).

(* a candidate set is adequate for [target] when it holds every direct performer and is closed under
   "calls a member on its own thread": then it holds everything that can reach [target] at all *)
Definition adequate (calls : list csite) (target : string -> bool) (S : list string) : bool :=
  forallb (fun s => cs_spawn s || negb (target (cs_callee s) || mem (cs_callee s) S) || mem (cs_caller s) S) calls.

Inductive Reaches (calls : list csite) (target : string -> bool) : string -> Prop :=
| R_direct s : In s calls -> cs_spawn s = false -> target (cs_callee s) = true -> Reaches calls target (cs_caller s)
| R_step s : In s calls -> cs_spawn s = false -> Reaches calls target (cs_callee s) -> Reaches calls target (cs_caller s).

Lemma adequate_complete calls target S :
  adequate calls target S = true -> forall f, Reaches calls target f -> mem f S = true.
Proof.
  unfold adequate. rewrite forallb_forall. intros H f R.
  induction R as [s Hin Hs Ht | s Hin Hs R IH]; specialize (H s Hin); rewrite Hs in H; cbn in H.
  - rewrite Ht in H. cbn in H. exact H.
  - rewrite IH, orb_true_r in H. cbn in H. exact H.
Qed.

Definition under_cfg (s : csite) : bool := cs_cfg s && negb (cs_spawn s).

(* inside a config-lock closure, on the thread that holds the lock: no network call and no function that
   can reach one; no acquisition of the config lock again and no function that can reach one; no acquisition
   of the update lock and no function that can reach one *)
Definition clean_under_cfg (calls : list csite) (target : string -> bool) (S : list string) : bool :=
  adequate calls target S &&
  forallb (fun s => negb (under_cfg s) || (negb (target (cs_callee s)) && negb (mem (cs_callee s) S))) calls.

Definition lock_discipline_ok (calls : list csite) (fns : list string) : bool :=
  clean_under_cfg calls is_net (reach calls fns is_net) &&
  clean_under_cfg calls (fun c => mem c lockers) (reach calls fns (fun c => mem c lockers)) &&
  clean_under_cfg calls (String.eqb upd_locker) (reach calls fns (String.eqb upd_locker)).

Lemma clean_spec calls target S :
  clean_under_cfg calls target S = true ->
  forall s, In s calls -> cs_cfg s = true -> cs_spawn s = false ->
    target (cs_callee s) = false /\ ~ Reaches calls target (cs_callee s).
Proof.
  unfold clean_under_cfg. intros H s Hin Hc Hs. apply andb_prop in H. destruct H as [Ha Hf].
  rewrite forallb_forall in Hf. specialize (Hf s Hin). unfold under_cfg in Hf. rewrite Hc, Hs in Hf. cbn in Hf.
  apply andb_prop in Hf. destruct Hf as [H1 H2]. rewrite negb_true_iff in H1, H2.
  split; [exact H1|]. intros R. rewrite (adequate_complete _ _ _ Ha _ R) in H2. discriminate.
Qed.

(* what the boolean means: for every call made inside a config-lock closure by the thread holding the lock *)
Theorem lock_discipline_spec calls fns :
  lock_discipline_ok calls fns = true ->
  forall s, In s calls -> cs_cfg s = true -> cs_spawn s = false ->
    (is_net (cs_callee s) = false /\ ~ Reaches calls is_net (cs_callee s)) /\
    (mem (cs_callee s) lockers = false /\ ~ Reaches calls (fun c => mem c lockers) (cs_callee s)) /\
    (String.eqb upd_locker (cs_callee s) = false /\ ~ Reaches calls (String.eqb upd_locker) (cs_callee s)).
Proof.
  unfold lock_discipline_ok. intros H s Hin Hc Hs.
  apply andb_prop in H. destruct H as [H H3]. apply andb_prop in H. destruct H as [H1 H2].
  pose proof (clean_spec _ _ _ H1 s Hin Hc Hs) as A.
  pose proof (clean_spec _ _ _ H2 s Hin Hc Hs) as B.
  pose proof (clean_spec _ _ _ H3 s Hin Hc Hs) as C.
  repeat split; tauto.
Qed.
