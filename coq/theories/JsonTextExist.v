(* JsonTextExist.v — the grammar is inhabited where it matters: every number, every (well-formed UTF-8) string, and
   from there every in-range patch-check answer HAS a spelling, which the library's reader turns back into that very
   answer.  (The completeness theorems of JsonTextProofs.v are therefore not vacuous, and the reader is onto.) *)
From UV Require Import Base Codec Model Json JsonProofs JsonText JsonTextProofs.
From Coq Require Import ZifyN ZifyBool ZifyNat Lia.
Local Open Scope N_scope.
Arguments N.add : simpl never.
Arguments N.mul : simpl never.
Arguments N.sub : simpl never.
Arguments N.div : simpl never.
Arguments N.modulo : simpl never.
Arguments N.eqb : simpl never.
Arguments N.ltb : simpl never.
Arguments N.leb : simpl never.
Arguments String.eqb : simpl never.

(* ---------- numbers ---------- *)
Lemma val_from_app acc ds d : val_from acc (ds ++ [d]) = val_from acc ds * 10 + (d - 48).
Proof. unfold val_from. rewrite fold_left_app. reflexivity. Qed.

Lemma AllDig_app a b : AllDig a -> AllDig b -> AllDig (a ++ b).
Proof. intros Ha Hb. apply Forall_app. split; assumption. Qed.

(* every number has a decimal spelling without a leading zero *)
Lemma digits_exist : forall k v, (N.to_nat v < k)%nat ->
  exists ds, AllDig ds /\ ds <> [] /\ val_from 0 ds = v /\ (v <> 0 -> match ds with d :: _ => d <> 48 | [] => False end)
             /\ (v = 0 -> ds = [48]).
Proof.
  induction k as [|k IH]; intros v Hk; [lia|].
  destruct (N.ltb_spec v 10) as [Hlt|Hge].
  - exists [48 + v]. repeat split.
    + constructor; [unfold is_digit; lia|constructor].
    + discriminate.
    + unfold val_from. cbn [fold_left]. lia.
    + intros Hv. lia.
    + intros ->. reflexivity.
  - destruct (IH (v / 10)) as (ds & Hd & Hne & Hval & Hlead & _).
    { assert (v / 10 < v) by (apply N.div_lt; lia). lia. }
    exists (ds ++ [48 + v mod 10]). repeat split.
    + apply AllDig_app; [exact Hd|]. constructor; [|constructor].
      assert (v mod 10 < 10) by (apply N.mod_lt; lia). unfold is_digit. lia.
    + destruct ds; discriminate.
    + rewrite val_from_app, Hval. assert (v mod 10 < 10) by (apply N.mod_lt; lia).
      pose proof (N.div_mod v 10 ltac:(lia)). lia.
    + intros _. assert (Hq : v / 10 <> 0). { intros E. apply N.div_small_iff in E; lia. }
      specialize (Hlead Hq). destruct ds as [|d ds']; [contradiction|]. cbn [app]. exact Hlead.
    + intros ->. lia.
Qed.

Lemma IntPart_exists v : exists ip, IntPart ip v.
Proof.
  destruct (digits_exist (S (N.to_nat v)) v ltac:(lia)) as (ds & Hd & Hne & Hval & Hlead & Hz).
  destruct (N.eq_dec v 0) as [->|Hnz].
  - exists [48]. constructor.
  - specialize (Hlead Hnz). destruct ds as [|d ds']; [contradiction|].
    exists (d :: ds'). rewrite <- Hval. inversion Hd; subst. constructor; assumption.
Qed.

Lemma Gnum_usize v : v < two64 -> exists b, Gnum (JInt false v) b.
Proof.
  intros Hv. destruct (IntPart_exists v) as (ip & Hip).
  exists ip. exists false, ip, v, [], false, [], false. repeat split; try constructor; try assumption.
  - rewrite !app_nil_r. reflexivity.
  - unfold classify. assert (E : (v <? two64) = true) by lia. rewrite E. reflexivity.
Qed.

(* ---------- strings ---------- *)
Definition hexd (n : N) : N := if n <? 10 then 48 + n else 87 + n.

Lemma hex4_ctrl c : c < 32 -> hex4 [48; 48; hexd (c / 16); hexd (c mod 16)] = Some (c, []).
Proof.
  intros H.
  assert (Hall : forallb (fun k => match hex4 [48; 48; hexd (k / 16); hexd (k mod 16)] with
                                   | Some (v, []) => v =? k | _ => false end) (map N.of_nat (seq 0 32)) = true)
    by (vm_compute; reflexivity).
  rewrite forallb_forall in Hall.
  assert (Hin : In c (map N.of_nat (seq 0 32))).
  { apply in_map_iff. exists (N.to_nat c). split; [lia|]. apply in_seq. lia. }
  specialize (Hall c Hin). destruct (hex4 [48; 48; hexd (c / 16); hexd (c mod 16)]) as [[v [|x r]]|]; try discriminate.
  f_equal. f_equal. lia.
Qed.

Lemma Body_exists s : exists ts, Body ts s.
Proof.
  induction s as [|c s (ts & IH)]; [exists []; constructor|].
  assert (Hitem : exists t, Item t [c]).
  { destruct (N.ltb_spec c 32) as [H32|H32].
    - exists [92; 117; 48; 48; hexd (c / 16); hexd (c mod 16)].
      replace [c] with (utf8_enc c) by (unfold utf8_enc; assert (E : (c <? 128) = true) by lia; rewrite E; reflexivity).
      apply I_u.
      + apply hex4_ctrl. exact H32.
      + unfold is_low_surrogate. lia.
      + unfold is_high_surrogate. lia.
    - destruct (N.eq_dec c 34) as [->|N34]; [exists [92; 34]; apply I_esc; [reflexivity|lia]|].
      destruct (N.eq_dec c 92) as [->|N92]; [exists [92; 92]; apply I_esc; [reflexivity|lia]|].
      exists [c]. apply I_raw; assumption. }
  destruct Hitem as (t & Ht). exists (t ++ ts). change (c :: s) with ([c] ++ s). constructor; assumption.
Qed.

Lemma Gstr_exists s : utf8_valid s = true -> exists b, Gstr s b.
Proof.
  intros Hv. destruct (Body_exists s) as (ts & Hb). exists (34 :: ts ++ [34]). exists ts. repeat split; assumption.
Qed.

Definition bytes_of (s : string) : bytes := map N_of_ascii (list_ascii_of_string s).
Lemma str_of_bytes_of s : str_of (bytes_of s) = s.
Proof.
  unfold str_of, bytes_of. rewrite map_map.
  rewrite (map_ext _ (fun a => a)) by (intros a; apply ascii_N_embedding).
  rewrite map_id. apply string_of_list_ascii_of_string.
Qed.

Lemma G_string s : utf8_valid (bytes_of s) = true -> exists b, G (JStr s) b.
Proof.
  intros Hv. destruct (Gstr_exists _ Hv) as (b & Hb). exists b. rewrite <- (str_of_bytes_of s). constructor. exact Hb.
Qed.

(* plain ASCII strings (the field names) spell themselves *)
Definition plainb (c : N) : bool := (32 <=? c) && negb (c =? 34) && negb (c =? 92) && (c <? 128).
Lemma Body_plain s : forallb plainb s = true -> Body s s /\ utf8_valid s = true.
Proof.
  induction s as [|c s IH]; intros H; [split; [constructor|reflexivity]|].
  cbn [forallb] in H. apply Bool.andb_true_iff in H. destruct H as [Hc Hs]. destruct (IH Hs) as [Hb Hv].
  unfold plainb in Hc. split.
  - change (c :: s) with ([c] ++ s). constructor; [|exact Hb]. apply I_raw; lia.
  - cbn [utf8_valid]. assert (E : (c <? 128) = true) by lia. rewrite E. exact Hv.
Qed.
Lemma Gstr_plain s : forallb plainb s = true -> Gstr s (34 :: s ++ [34]).
Proof. intros H. destruct (Body_plain s H) as [Hb Hv]. exists s. repeat split; assumption. Qed.

Lemma WSnil : WS []. Proof. constructor. Qed.

(* members whose keys are all fields of the struct *)
Lemma GSM_exists fs : forall (l : list (bytes * json * bytes)), l <> [] ->
  Forall (fun x => Gstr (fst (fst x)) (34 :: fst (fst x) ++ [34]) /\ GSV fs (str_of (fst (fst x))) (snd (fst x)) (snd x)) l ->
  exists b, GSM fs (map (fun x => (str_of (fst (fst x)), snd (fst x))) l) b.
Proof.
  induction l as [|[[k v] vb] l IH]; intros Hne HF; [contradiction|].
  inversion HF as [|? ? [Hk Hv] HF']; subst. cbn [fst snd] in *.
  destruct l as [|x l'].
  - exists ((34 :: k ++ [34]) ++ [] ++ 58 :: [] ++ vb ++ [] ++ [125]). cbn [map fst snd].
    apply GSM_last; auto using WSnil.
  - destruct (IH ltac:(discriminate) HF') as (b' & Hb').
    exists ((34 :: k ++ [34]) ++ [] ++ 58 :: [] ++ vb ++ [] ++ 44 :: [] ++ b').
    change (map (fun x0 => (str_of (fst (fst x0)), snd (fst x0))) ((k, v, vb) :: x :: l'))
      with ((str_of k, v) :: map (fun x0 => (str_of (fst (fst x0)), snd (fst x0))) (x :: l')).
    apply GSM_cons; auto using WSnil.
Qed.

Lemma GE_nums : forall l, l <> [] -> Forall (fun n => n < two64) l ->
  exists b, GE (map (fun n => JNum (JInt false n)) l) b.
Proof.
  induction l as [|n l IH]; intros Hne HF; [contradiction|].
  inversion HF as [|? ? Hn HF']; subst. destruct (Gnum_usize n Hn) as (nb & Hnb).
  destruct l as [|m l'].
  - exists (nb ++ [] ++ [93]). cbn [map]. apply GE_last; [constructor; exact Hnb|apply WSnil].
  - destruct (IH ltac:(discriminate) HF') as (b' & Hb').
    exists (nb ++ [] ++ 44 :: [] ++ b'). cbn [map] in *. apply GE_cons; auto using WSnil. constructor. exact Hnb.
Qed.

Lemma G_nums l : Forall (fun n => n < two64) l -> exists b, G (JArr (map (fun n => JNum (JInt false n)) l)) b.
Proof.
  intros HF. destruct l as [|n l'].
  - exists (91 :: [] ++ [93]). apply G_arr0. apply WSnil.
  - destruct (GE_nums (n :: l') ltac:(discriminate) HF) as (b & Hb). exists (91 :: [] ++ b). apply G_arr; [apply WSnil|exact Hb].
Qed.

Definition ostring_utf8 (o : option string) : Prop := match o with Some s => utf8_valid (bytes_of s) = true | None => True end.
Definition patch_utf8 (p : patch) : Prop :=
  utf8_valid (bytes_of (p_hash p)) = true /\ utf8_valid (bytes_of (p_url p)) = true /\ ostring_utf8 (p_sig p).
Definition resp_utf8 (r : resp) : Prop := match r_patch r with Some p => patch_utf8 p | None => True end.

Lemma G_ostring o : ostring_utf8 o -> exists b, G (json_of_ostring o) b /\ (forall r, b <> 123 :: r).
Proof.
  destruct o as [s|]; intros H; cbn [json_of_ostring].
  - destruct (Gstr_exists _ H) as (b & Hb). exists b. split.
    + rewrite <- (str_of_bytes_of s). constructor. exact Hb.
    + destruct Hb as (ts & -> & _). intros r. discriminate.
  - exists [110; 117; 108; 108]. split; [constructor|intros r; discriminate].
Qed.

Ltac key_ok := apply Gstr_plain; vm_compute; reflexivity.

Lemma GS_patch p : p_num p < two64 -> patch_utf8 p -> exists b, GS patch_schema (json_of_patch p) b.
Proof.
  intros Hn (Hh & Hu & Hs).
  destruct (Gnum_usize _ Hn) as (nb & Hnb).
  destruct (G_string _ Hh) as (hb & Hhb). destruct (G_string _ Hu) as (ub & Hub).
  destruct (G_ostring _ Hs) as (sb & Hsb & _).
  destruct (GSM_exists [("number", SLeaf); ("hash", SLeaf); ("download_url", SLeaf); ("hash_signature", SLeaf)]%string
              [(bytes_of "number", JNum (JInt false (p_num p)), nb); (bytes_of "hash", JStr (p_hash p), hb);
               (bytes_of "download_url", JStr (p_url p), ub); (bytes_of "hash_signature", json_of_ostring (p_sig p), sb)]
              ltac:(discriminate)) as (b & Hb).
  { repeat constructor; cbn [fst snd]; try key_ok; rewrite str_of_bytes_of.
    - eapply GSV_known; [reflexivity|]. constructor. constructor. exact Hnb.
    - eapply GSV_known; [reflexivity|]. constructor. exact Hhb.
    - eapply GSV_known; [reflexivity|]. constructor. exact Hub.
    - eapply GSV_known; [reflexivity|]. constructor. exact Hsb. }
  exists (123 :: [] ++ b). unfold json_of_patch, patch_schema.
  cbn [map fst snd] in Hb. rewrite !str_of_bytes_of in Hb. apply GS_obj; [apply WSnil|exact Hb].
Qed.

Theorem answer_has_a_sentence r : resp_in_range r -> resp_utf8 r -> exists b, GS resp_schema (json_of_resp r) b.
Proof.
  intros [Hp Hl] Hu.
  assert (Hav : exists ab, G (JBool (r_avail r)) ab).
  { destruct (r_avail r); eexists; constructor. }
  destruct Hav as (ab & Hab).
  assert (Hpt : exists pb, GS patch_schema (match r_patch r with Some p => json_of_patch p | None => JNull end) pb).
  { unfold resp_utf8 in Hu. destruct (r_patch r) as [p|].
    - apply GS_patch; [apply Hp; reflexivity|exact Hu].
    - exists [110; 117; 108; 108]. apply GS_other; [constructor|intros r0; discriminate|intros r0; discriminate]. }
  destruct Hpt as (pb & Hpb).
  assert (Hrb : exists rb, G (match r_rb r with Some l => JArr (map (fun n => JNum (JInt false n)) l) | None => JNull end) rb).
  { destruct (r_rb r) as [l|]; [apply G_nums; apply Hl; reflexivity|eexists; constructor]. }
  destruct Hrb as (rb & Hrbb).
  destruct (GSM_exists [("patch_available", SLeaf); ("patch", patch_schema); ("rolled_back_patch_numbers", SLeaf)]%string
              [(bytes_of "patch_available", JBool (r_avail r), ab);
               (bytes_of "patch", match r_patch r with Some p => json_of_patch p | None => JNull end, pb);
               (bytes_of "rolled_back_patch_numbers",
                match r_rb r with Some l => JArr (map (fun n => JNum (JInt false n)) l) | None => JNull end, rb)]
              ltac:(discriminate)) as (b & Hb).
  { repeat constructor; cbn [fst snd]; try key_ok; rewrite str_of_bytes_of.
    - eapply GSV_known; [reflexivity|]. constructor. exact Hab.
    - eapply GSV_known; [reflexivity|]. exact Hpb.
    - eapply GSV_known; [reflexivity|]. constructor. exact Hrbb. }
  exists (123 :: [] ++ b). unfold json_of_resp, resp_schema.
  cbn [map fst snd] in Hb. rewrite !str_of_bytes_of in Hb. apply GS_obj; [apply WSnil|exact Hb].
Qed.

(* the reader is onto: every in-range answer whose strings are text has a body that the library reads as that answer *)
Theorem every_answer_has_a_body r : resp_in_range r -> resp_utf8 r -> exists b, resp_of_body b = Some r.
Proof.
  intros Hr Hu. destruct (answer_has_a_sentence r Hr Hu) as (b & Hb).
  exists ([] ++ b ++ []). rewrite (resp_of_body_complete _ _ _ _ Hb WSnil WSnil). apply resp_roundtrip. exact Hr.
Qed.
