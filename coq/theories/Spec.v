(* Spec.v — the abstract lifecycle machine: what the patch manager is *for*, with records, sizes, hashes,
   signatures and JSON files abstracted away.  State: which number is selected for the next boot, which is
   the last good one, which is booting, which are banned, and for which numbers a bootable artifact is
   present.  SpecRefine.v proves that the concrete PatchManager operations of Model.v refine these.

   Read this file as the specification of C02/C03/C09/C10/C18/C19 in one place:
     - fall back from x: forget x's artifact; if x was selected, select the last good patch provided it is
       not x and still has its artifact, otherwise select nothing and forget a last good patch that is x or
       has lost its artifact;
     - a query hands out the selection if its artifact is there, else falls back from it first;
     - launch start marks the handed-out patch as booting; success makes it the last good one and reclaims
       lower-numbered artifacts other than the selection; failure bans it and falls back from it;
     - install selects the new patch and reclaims a never-booted predecessor (not the last good one, not
       the one booting); rollback is fall back from each listed number. *)
From UV Require Import Base.

Record ast := { a_sel : option N; a_good : option N; a_boot : option N; a_ban : list N;
                a_has : N -> bool }.

Definition oeqb (o : option N) (x : N) : bool := match o with Some y => N.eqb y x | None => false end.

Definition a_del (a : ast) (x : N) : ast :=
  {| a_sel := a_sel a; a_good := a_good a; a_boot := a_boot a; a_ban := a_ban a;
     a_has := fun k => if N.eqb k x then false else a_has a k |}.
Definition a_put (a : ast) (x : N) : ast :=
  {| a_sel := a_sel a; a_good := a_good a; a_boot := a_boot a; a_ban := a_ban a;
     a_has := fun k => if N.eqb k x then true else a_has a k |}.
Definition a_with_sel (a : ast) (s : option N) : ast :=
  {| a_sel := s; a_good := a_good a; a_boot := a_boot a; a_ban := a_ban a; a_has := a_has a |}.
Definition a_with_good (a : ast) (g : option N) : ast :=
  {| a_sel := a_sel a; a_good := g; a_boot := a_boot a; a_ban := a_ban a; a_has := a_has a |}.
Definition a_with_boot (a : ast) (b : option N) : ast :=
  {| a_sel := a_sel a; a_good := a_good a; a_boot := b; a_ban := a_ban a; a_has := a_has a |}.
Definition a_with_ban (a : ast) (l : list N) : ast :=
  {| a_sel := a_sel a; a_good := a_good a; a_boot := a_boot a; a_ban := l; a_has := a_has a |}.

Definition a_fall_back (a : ast) (x : N) : ast :=
  let a1 := a_del a x in
  let sel1 := if oeqb (a_sel a) x then None else a_sel a in
  match a_good a with
  | Some g =>
      if negb (N.eqb g x) && a_has a1 g
      then a_with_sel a1 (match sel1 with None => Some g | Some s => Some s end)
      else a_del (a_with_good (a_with_sel a1 sel1) None) g
  | None => a_with_sel a1 sel1
  end.

Definition a_query (a : ast) : ast * option N :=
  match a_sel a with
  | None => (a, None)
  | Some n => if a_has a n then (a, Some n)
              else let a' := a_fall_back a n in (a', a_sel a')
  end.

Definition a_start (a : ast) : ast :=
  let '(a', r) := a_query a in
  match r with Some _ => a_with_boot a' (a_sel a') | None => a' end.

Definition a_success (a : ast) : ast :=
  match a_boot a with
  | None => a
  | Some b =>
      {| a_sel := a_sel a; a_good := Some b; a_boot := None; a_ban := a_ban a;
         a_has := fun k => if N.ltb k b && negb (oeqb (a_sel a) k) then false else a_has a k |}
  end.

Definition a_add_bad (n : N) (l : list N) : list N := if inb n l then l else n :: l.

Definition a_failure (a : ast) : ast :=
  match a_boot a with
  | None => a
  | Some b => a_fall_back (a_with_ban (a_with_boot a None) (a_add_bad b (a_ban a))) b
  end.

(* the new content is bootable (it passed the hash gate; with a key, its signature verifies) *)
Definition a_install (a : ast) (n : N) : ast :=
  let a1 := a_put a n in
  let a2 := match a_sel a, a_good a with
            | Some x, Some l =>
                if negb (N.eqb l x) && negb (N.eqb x n) && negb (oeqb (a_boot a) x) then a_del a1 x else a1
            | _, _ => a1
            end in
  a_with_sel a2 (Some n).

Definition a_rollback (a : ast) (l : list N) : ast := fold_left a_fall_back l a.
