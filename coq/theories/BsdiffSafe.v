(* BsdiffSafe.v — no slice index of the scan loop is ever out of range and no usize subtraction underflows:
   an instrumented twin of Bsdiff.outer that, at every point where the Rust code indexes obuf / nbuf without a
   guard or subtracts two usize values, checks the side condition, and the theorem that under the matcher's
   bound every check succeeds.  (Guarded accesses `oi < obuflen && obuf[oi] == ..` need no condition on oi; the
   cast `(scsc as isize + lastoffset) as usize` wraps, it does not panic.) *)
From UV Require Import Base Codec Bsdiff BsdiffProofs.
From Coq Require Import ZifyN ZifyBool ZifyNat.
Arguments N.add : simpl never.
Arguments N.sub : simpl never.
Arguments N.min : simpl never.
Arguments N.max : simpl never.
Arguments N.ltb : simpl never.
Arguments N.leb : simpl never.
Arguments N.eqb : simpl never.
Arguments N.of_nat : simpl never.
Arguments N.to_nat : simpl never.
Arguments Z.to_N : simpl never.

Section S.
Variable old new : bytes.
Variable lsm : N -> N * N.
Notation olen := (olen old).
Notation nlen := (nlen new).

(* side conditions of the block that builds a Match (lib.rs:196-283), with the same intermediate values *)
Definition emit_ok (st : bs) (sc ps : N) : bool :=
  let lenf0 := Z.to_N (lenf_loop old new (N.to_nat (N.min (sc - lastscan st) (olen - lastpos st)))
                                 0 0 0 0 (lastpos st) (lastscan st)) in
  let lenb0 := if nlen <=? sc then 0
               else Z.to_N (lenb_loop old new (N.to_nat (N.min (sc - lastscan st) ps)) 1 0 0 0 ps sc) in
  (* `self.scan - self.lastscan`, `obuflen - self.lastpos` *)
  (lastscan st <=? sc) && (lastpos st <=? olen) &&
  (* forward loop: obuf[lastpos+i], nbuf[lastscan+i] for i < min(..) *)
  (lastpos st + N.min (sc - lastscan st) (olen - lastpos st) <=? olen) &&
  (lastscan st + N.min (sc - lastscan st) (olen - lastpos st) <=? nlen) &&
  (* backward loop (only if scan < nbuflen): obuf[pos-i], nbuf[scan-i] for 1 <= i <= min(..) *)
  ((nlen <=? sc) || ((N.min (sc - lastscan st) ps <=? ps) && (N.min (sc - lastscan st) ps <=? sc) &&
                     (ps <=? olen) && (sc <=? nlen))) &&
  (* `self.scan - lenb`, `self.pos - lenb` *)
  (lenb0 <=? sc) && (lenb0 <=? ps) &&
  (if sc - lenb0 <? lastscan st + lenf0 then
     let overlap := (lastscan st + lenf0) - (sc - lenb0) in
     let lens := lens_loop old new (N.to_nat overlap) 0 0 0 0
                           (lastscan st + lenf0 - overlap) (lastpos st + lenf0 - overlap)
                           (sc - lenb0) (ps - lenb0) in
     (* the four index expressions of the overlap loop, i < overlap *)
     (overlap <=? lastscan st + lenf0) && (overlap <=? lastpos st + lenf0) &&
     (lastscan st + lenf0 <=? nlen) && (lastpos st + lenf0 <=? olen) &&
     (sc - lenb0 + overlap <=? nlen) && (ps - lenb0 + overlap <=? olen) &&
     (* `lenf += lens; lenf -= overlap; lenb -= lens` *)
     (overlap <=? lenf0 + lens) && (lens <=? lenb0)
   else true).

(* the twin of [inner]: `&self.nbuf[self.scan..]`, nbuf[scsc] for scsc < scan+length, nbuf[scan] *)
Fixpoint inner_ok (fuel : nat) (sc scsc ps ln : N) (off : Z) (score : N) : bool :=
  match fuel with
  | O => true
  | S f =>
      if sc <? nlen then
        let '(p, l) := lsm sc in
        let upto := sc + l in
        let score1 := count old new (N.to_nat (upto - scsc)) scsc off score in
        (sc <=? nlen) && (upto <=? nlen) &&
        (if ((l =? score1) && negb (l =? 0)) || (score1 + 8 <? l) then true
         else if same old new (Z.of_N sc + off) sc
              then if score1 =? 0 then true else inner_ok f (sc + 1) (N.max scsc upto) p l off (score1 - 1)
              else inner_ok f (sc + 1) (N.max scsc upto) p l off score1)
      else true
  end.

Fixpoint outer_ok (fuel : nat) (st : bs) : bool :=
  match fuel with
  | O => true
  | S f =>
      if scan st <? nlen then
        let sc0 := scan st + len st in
        inner_ok (S (N.to_nat (nlen - sc0))) sc0 sc0 (pos st) (len st) (lastoff st) 0 &&
        match inner old new lsm (S (N.to_nat (nlen - sc0))) sc0 sc0 (pos st) (len st) (lastoff st) 0 with
        | Ok (sc, ps, ln, score) =>
            if negb (ln =? score) || (sc =? nlen) then
              emit_ok st sc ps && outer_ok f (snd (emit old new st sc ps ln))
            else outer_ok f {| scan := sc; pos := ps; len := ln; lastscan := lastscan st;
                               lastpos := lastpos st; lastoff := lastoff st |}
        | _ => true
        end
      else true
  end.

Hypothesis Hlsm : lsm_bounded old new lsm.

Lemma inner_ok_true fuel : forall sc scsc ps ln off score,
  sc <= nlen -> inner_ok fuel sc scsc ps ln off score = true.
Proof.
  induction fuel as [|f IH]; intros sc scsc ps ln off score Hsc; cbn [inner_ok]; [reflexivity|].
  destruct (sc <? nlen) eqn:E; [|reflexivity].
  destruct (lsm sc) as [p l] eqn:El.
  assert (Hb := Hlsm sc ltac:(lia)). rewrite El in Hb. cbn [fst snd] in Hb.
  assert (E1 : (sc <=? nlen) = true) by lia. assert (E2 : (sc + l <=? nlen) = true) by lia.
  rewrite E1, E2. cbn [andb].
  destruct (_ || _); [reflexivity|].
  destruct (same old new _ sc); [destruct (_ =? 0); [reflexivity|]|]; apply IH; lia.
Qed.

Lemma emit_ok_true st sc ps :
  lastscan st <= sc -> sc <= nlen -> lastpos st <= olen -> ps <= olen -> emit_ok st sc ps = true.
Proof.
  intros Hls Hsc Hlp Hps. unfold emit_ok.
  set (nf := N.to_nat (N.min (sc - lastscan st) (olen - lastpos st))).
  pose proof (lenf_loop_bound old new nf 0 0 0 0 (lastpos st) (lastscan st) ltac:(lia)) as Hf.
  set (lf := lenf_loop old new nf 0 0 0 0 (lastpos st) (lastscan st)) in *.
  set (nb := N.to_nat (N.min (sc - lastscan st) ps)).
  pose proof (lenb_loop_bound old new nb 1 0 0 0 ps sc ltac:(lia) ltac:(lia)) as Hb.
  set (lb := lenb_loop old new nb 1 0 0 0 ps sc) in *.
  set (lenb0 := if nlen <=? sc then 0 else Z.to_N lb).
  assert (Hlenb0 : lenb0 <= sc - lastscan st /\ lenb0 <= ps).
  { unfold lenb0. destruct (nlen <=? sc) eqn:E; [lia|]. destruct Hb as [Hb|[Hb1 Hb2]]; lia. }
  clearbody lenb0. clear Hb.
  set (lenf0 := Z.to_N lf).
  assert (Hlenf0 : lenf0 <= sc - lastscan st /\ lenf0 <= olen - lastpos st) by lia.
  clearbody lenf0. clear Hf.
  destruct (sc - lenb0 <? lastscan st + lenf0) eqn:Eov.
  - set (ov := lastscan st + lenf0 - (sc - lenb0)).
    match goal with |- context [lens_loop _ _ ?n ?i ?s ?ss ?ls ?a ?b ?c ?d] =>
      pose proof (lens_loop_bound old new n i s ss ls a b c d ltac:(lia)) as Hl;
      set (lens := lens_loop old new n i s ss ls a b c d) in * end.
    destruct (nlen <=? sc) eqn:En; cbn [orb];
      repeat (apply andb_true_intro; split); lia.
  - destruct (nlen <=? sc) eqn:En; cbn [orb];
      repeat (apply andb_true_intro; split); lia.
Qed.

Lemma outer_ok_true fuel : forall st, I old new st -> outer_ok fuel st = true.
Proof.
  induction fuel as [|f IH]; intros st HI; cbn [outer_ok]; [reflexivity|].
  destruct HI as (I1 & I2 & I3 & I4 & I5).
  destruct (scan st <? nlen) eqn:E; [|reflexivity].
  specialize (I4 ltac:(lia)).
  rewrite inner_ok_true by lia. cbn [andb].
  destruct (inner old new lsm _ _ _ _ _ _ _) as [[[[sc ps] ln] score]| |] eqn:Ein; try reflexivity.
  apply (inner_spec old new lsm Hlsm) in Ein; [|lia]. destruct Ein as (J1 & J2 & J3 & J4).
  assert (Hps : ps <= olen).
  { destruct (N.eq_dec sc nlen) as [Es|Es].
    - destruct (N.eq_dec (scan st + len st) nlen) as [E0|E0].
      + destruct (J4 E0) as [-> ->]. lia.
      + specialize (J3 Es ltac:(lia)). lia.
    - specialize (J2 ltac:(lia)). lia. }
  destruct (negb (ln =? score) || (sc =? nlen)) eqn:Eem.
  - rewrite emit_ok_true by lia. cbn [andb].
    destruct (emit old new st sc ps ln) as [m st'] eqn:Eemit. cbn [snd].
    apply emit_spec in Eemit; try lia.
    apply IH. apply Eemit.
  - assert (Hsc : sc < nlen) by lia. specialize (J2 Hsc).
    apply IH. unfold I; cbn. repeat split; lia.
Qed.

(* from the initial state: every index and every subtraction of the whole run is in range *)
Theorem bsdiff_index_safe : outer_ok (S (S (N.to_nat nlen))) bs0 = true.
Proof. apply outer_ok_true. apply I_bs0. Qed.

End S.
