(* Blocks.v — calls as programs of critical sections ("blocks"), interleaving semantics, and the
   theorems that hold for EVERY interleaving (C11), plus lock/network action traces (C12). *)
From UV Require Import Base Codec Model PMLemmas Inv Ban Handout Calls Frame Frames2 Frames3.
Arguments N.eqb : simpl never.

Section Blocks.
Variable sha : bytes -> bytes.
Variable sigok : string -> string -> string -> bool.
Variable zdec : bytes -> bytes.
Variable base : bytes.

Notation cs_next := (cs_next sha sigok).
Notation cs_start := (cs_start sha sigok).
Notation cs_failure := (cs_failure sha sigok).
Notation cs_rollback := (cs_rollback sha sigok).
Notation do_check := (do_check sha sigok).
Notation do_update := (do_update sha sigok zdec base).
Notation inflate := (inflate zdec base).
Notation hash_ok := (hash_ok sha).

(* lock / network actions of one thread, in program order *)
Inductive action :=
| AcqCfg | RelCfg        (* the config mutex, which also guards all on-disk state *)
| TryUpd (ok : bool) | RelUpd
| Net (what : netobs)    (* a network callback is entered *)
| Spawn.                 (* a helper thread is started (event report) *)

(* stages of the two multi-block calls; every constructor is "about to acquire the config mutex" *)
Inductive ustage :=
| UTry | UCfg | UCopy | UClear (evs : list event)
| URb (rs : resp) (l : list N) | UBad (rs : resp) (p : patch) | UNxt (rs : resp) (p : patch)
| UIns (p : patch) (out : bytes).
Inductive cstage :=
| CCfg | CRb (rs : resp) (l : list N) | CBad (p : patch) | CNxt (p : patch).

Inductive stage :=
| GDone (x : out)
| GOne (o : op)                                  (* single-block calls *)
| GUpd (ch : option string) (r : option resp) (dl : option bytes) (log : list netobs) (u : ustage)
| GChk (ch : option string) (r : option resp) (c : cstage).

Definition stage_of (o : op) : stage :=
  match o with
  | OUpdate ch r dl => GUpd ch r dl [] UTry
  | OCheck ch r => GChk ch r CCfg
  | _ => GOne o
  end.

Definition after_rb_u (ch : option string) (r : option resp) (dl : option bytes) (log : list netobs)
           (rs : resp) : stage :=
  if negb (r_avail rs) then GDone (RStatus (status_code UNoUpdate))
  else match r_patch rs with
       | None => GDone (RStatus (status_code UError))
       | Some p => GUpd ch r dl log (UBad rs p)
       end.

Definition after_rb_c (ch : option string) (r : option resp) (rs : resp) : stage :=
  match r_patch rs with
  | None => GDone (RBool false)
  | Some p => GChk ch r (CBad p)
  end.

(* one block: everything a thread does between acquiring the config mutex and the next acquisition
   (network calls happen after the release, before the next stage) *)
Definition block (c : cfg) (g : stage) (d : disk) : stage * disk * list netobs :=
  match g with
  | GDone x => (GDone x, d, [])
  | GOne o =>
      match o with
      | ONextNum => let '(d', r) := cs_next c d in
                    (GDone (RNum (match r with Some n => n | None => 0 end)), d', [])
      | ONextPath => let '(d', r) := cs_next c d in (GDone (RPath r), d', [])
      | OCurNum => let '(d', r) := cs_current c d in
                   (GDone (RNum (match r with Some n => n | None => 0 end)), d', [])
      | OStart => (GDone RUnit, cs_start c d, [])
      | OSuccess => let '(d', l) := cs_success c d in (GDone RUnit, d', l)
      | OFailure => let '(d', _) := cs_failure c d in (GDone RUnit, d', [])
      | OAuto => (GDone (RBool (c_auto c)), d, [])
      | OInit _ _ _ => (GDone (RBool false), d, [])
      | _ => (GDone RUnit, d, [])
      end
  | GUpd ch r dl log u =>
      match u with
      | UTry => (GUpd ch r dl log UCfg, d, [])       (* update mutex taken; no shared state touched *)
      | UCfg => (GUpd ch r dl log UCopy, d, [])
      | UCopy => let '(d', evs) := cs_copy_events c d in
                 (GUpd ch r dl log (UClear evs), d', map NEvent evs)   (* queued events go out now *)
      | UClear evs =>
          let d' := cs_clear_events c d in
          let out := [NCheck (mk_request c ch)] in
          (match r with
           | None => GDone (RStatus (status_code UError))
           | Some rs => match r_rb rs with
                        | Some l => GUpd ch r dl log (URb rs l)
                        | None => after_rb_u ch r dl log rs
                        end
           end, d', out)
      | URb rs l => (after_rb_u ch r dl log rs, cs_rollback c d l, [])
      | UBad rs p =>
          let '(d', b) := cs_is_bad c d (p_num p) in
          (if b then GDone (RStatus (status_code UBadPatch)) else GUpd ch r dl log (UNxt rs p), d', [])
      | UNxt rs p =>
          let '(d', k) := cs_next c d in
          let already := match k with Some n => N.eqb n (p_num p) | None => false end in
          if already then (GDone (RStatus (status_code UNoUpdate)), d', [])
          else
            (match dl with
             | None => GDone (RStatus (status_code UError))
             | Some bdl =>
                 match inflate bdl with
                 | None => GDone (RStatus (status_code UError))
                 | Some out => if hash_ok out (p_hash p) then GUpd ch r dl log (UIns p out)
                               else GDone (RStatus (status_code UError))
                 end
             end, d', [NDownload (p_url p)])
      | UIns p out =>
          let '(d', st) := cs_install c d p out in
          (GDone (RStatus (status_code st)), d',
           match st with UInstalled => [NEvent (mk_event c EvDownload (p_num p) MsgNone)] | _ => [] end)
      end
  | GChk ch r cs =>
      match cs with
      | CCfg =>
          (match r with
           | None => GDone (RBool false)
           | Some rs => match r_rb rs with
                        | Some l => GChk ch r (CRb rs l)
                        | None => after_rb_c ch r rs
                        end
           end, d, [NCheck (mk_request c ch)])
      | CRb rs l => (after_rb_c ch r rs, cs_rollback c d l, [])
      | CBad p =>
          let '(d', b) := cs_is_bad c d (p_num p) in
          (if b then GDone (RBool false) else GChk ch r (CNxt p), d', [])
      | CNxt p =>
          let '(d', k) := cs_next c d in
          (GDone (RBool (match k with Some n => negb (N.eqb n (p_num p)) | None => true end)), d', [])
      end
  end.

(* run one call to completion with nobody else interfering *)
Fixpoint run_stage (fuel : nat) (c : cfg) (g : stage) (d : disk) (log : list netobs)
  : stage * disk * list netobs :=
  match fuel with
  | O => (g, d, log)
  | S f => match g with
           | GDone _ => (g, d, log)
           | _ => let '(g', d', l) := block c g d in run_stage f c g' d' (log ++ l)
           end
  end.

(* ---------- refinement: the sequential call is its blocks run back to back ---------- *)
Local Opaque Model.cs_next Model.cs_start Model.cs_success Model.cs_failure Model.cs_init_recover
      Model.cs_rollback Model.cs_install Model.cs_copy_events Model.cs_is_bad
      Model.cs_clear_events Model.inflate Model.hash_ok Model.cs_current Model.mk_request Model.mk_event.


Ltac fin := cbn [run_stage block app fst snd negb]; rewrite ?app_nil_r, <- ?app_assoc; reflexivity.

Definition conv (x : disk * ustatus * list netobs) : stage * disk * list netobs :=
  let '(d, st, log) := x in (GDone (RStatus (status_code st)), d, log).

(* the part of do_update after the selection check said "ok to install" *)
Definition upd_tail (c : cfg) (dl : option bytes) (p : patch) (d3 : disk) (log : list netobs)
  : disk * ustatus * list netobs :=
  match dl with
  | None => (d3, UError, log)
  | Some bytes_dl =>
      match inflate bytes_dl with
      | None => (d3, UError, log)
      | Some out =>
          if hash_ok out (p_hash p)
          then let '(d4, st) := cs_install c d3 p out in
               (d4, st, match st with
                        | UInstalled => log ++ [NEvent (mk_event c EvDownload (p_num p) MsgNone)]
                        | _ => log
                        end)
          else (d3, UError, log)
      end
  end.

Lemma tail_refine c ch r dl p d2 (log0 : list netobs) :
  run_stage 2 c
    (match dl with
     | None => GDone (RStatus (status_code UError))
     | Some bdl => match inflate bdl with
                   | None => GDone (RStatus (status_code UError))
                   | Some out => if hash_ok out (p_hash p) then GUpd ch r dl [] (UIns p out)
                                 else GDone (RStatus (status_code UError))
                   end
     end) d2 (log0 ++ [NDownload (p_url p)]) =
  conv (upd_tail c dl p d2 (log0 ++ [NDownload (p_url p)])).
Proof.
  unfold upd_tail, conv. destruct dl as [bdl|]; [|fin].
  destruct (inflate bdl) as [out|]; [|fin].
  destruct (hash_ok out (p_hash p)); [|fin].
  cbn [run_stage block]. destruct (cs_install c d2 p out) as [d4 st]. destruct st; fin.
Qed.

Definition upd_from_bad (c : cfg) (dl : option bytes) (p : patch) (d2 : disk) (log : list netobs)
  : disk * ustatus * list netobs :=
  let '(d3, sh) := should_install sha sigok c d2 (p_num p) in
  match sh with
  | ShBad => (d3, UBadPatch, log)
  | ShAlready => (d3, UNoUpdate, log)
  | ShOk => upd_tail c dl p d3 (log ++ [NDownload (p_url p)])
  end.

Lemma bad_refine c ch r dl rs p d2 log0 :
  run_stage 4 c (GUpd ch r dl [] (UBad rs p)) d2 log0 = conv (upd_from_bad c dl p d2 log0).
Proof.
  unfold upd_from_bad, Model.should_install. cbn [run_stage block].
  destruct (cs_is_bad c d2 (p_num p)) as [d1 b]. destruct b; [unfold conv; fin|].
  cbn [run_stage block]. destruct (cs_next c d1) as [d3 k].
  destruct k as [n|].
  - destruct (N.eqb n (p_num p)); [unfold conv; fin|].
    rewrite app_nil_r. apply tail_refine.
  - rewrite app_nil_r. apply tail_refine.
Qed.

Definition upd_after_rb (c : cfg) (dl : option bytes) (rs : resp) (d2 : disk) (log : list netobs)
  : disk * ustatus * list netobs :=
  if negb (r_avail rs) then (d2, UNoUpdate, log)
  else match r_patch rs with
       | None => (d2, UError, log)
       | Some p => upd_from_bad c dl p d2 log
       end.

Lemma after_rb_refine c ch r dl rs d2 log0 :
  run_stage 4 c (after_rb_u ch r dl [] rs) d2 log0 = conv (upd_after_rb c dl rs d2 log0).
Proof.
  unfold after_rb_u, upd_after_rb. destruct (negb (r_avail rs)); [unfold conv; fin|].
  destruct (r_patch rs) as [p|]; [|unfold conv; fin]. apply bad_refine.
Qed.

Lemma do_update_unfold c d ch r dl :
  do_update c d ch r dl =
  let '(d0, evs) := cs_copy_events c d in
  let d1 := cs_clear_events c d0 in
  let log := map NEvent evs ++ [NCheck (mk_request c ch)] in
  match r with
  | None => (d1, UError, log)
  | Some rs => upd_after_rb c dl rs
                 (match r_rb rs with Some l => cs_rollback c d1 l | None => d1 end) log
  end.
Proof.
  unfold Model.do_update, upd_after_rb, upd_from_bad, upd_tail.
  destruct (cs_copy_events c d) as [d0 evs]. destruct r as [rs|]; [|reflexivity].
  destruct (negb (r_avail rs)); [reflexivity|].
  destruct (r_patch rs) as [p|]; [|reflexivity].
  destruct (should_install sha sigok c _ (p_num p)) as [d3 sh]. destruct sh; reflexivity.
Qed.


Lemma run_stage_done f c x d log : run_stage f c (GDone x) d log = (GDone x, d, log).
Proof. destruct f; reflexivity. Qed.

Lemma run_stage_mono f : forall k c g d log x d' l',
  run_stage f c g d log = (GDone x, d', l') -> run_stage (f + k) c g d log = (GDone x, d', l').
Proof.
  induction f as [|f IH]; intros k c g d log x d' l' H.
  - cbn in H. injection H as -> -> ->. apply run_stage_done.
  - destruct g as [y|o|ch r dl lg u|ch r cs].
    + rewrite run_stage_done in H. injection H as -> -> ->. apply run_stage_done.
    + cbn [Nat.add run_stage] in *. destruct (block c (GOne o) d) as [[g' d1] l1]. apply IH. exact H.
    + cbn [Nat.add run_stage] in *. destruct (block c (GUpd ch r dl lg u) d) as [[g' d1] l1]. apply IH. exact H.
    + cbn [Nat.add run_stage] in *. destruct (block c (GChk ch r cs) d) as [[g' d1] l1]. apply IH. exact H.
Qed.

Lemma conv_done x : exists y d l, conv x = (GDone y, d, l).
Proof. destruct x as [[d st] l]. eexists _, _, _. reflexivity. Qed.

Lemma run_stage_S f c g d log :
  run_stage (S f) c g d log =
  match g with
  | GDone _ => (g, d, log)
  | _ => let '(g', d', l) := block c g d in run_stage f c g' d' (log ++ l)
  end.
Proof. reflexivity. Qed.

Lemma update_blocks_refine c d ch r dl :
  run_stage 9 c (GUpd ch r dl [] UTry) d [] = conv (do_update c d ch r dl).
Proof.
  rewrite do_update_unfold.
  rewrite run_stage_S. cbn [block app].
  rewrite run_stage_S. cbn [block app]. rewrite run_stage_S. cbn [block app].
  destruct (cs_copy_events c d) as [d0 evs]. rewrite run_stage_S. cbn [block app].
  destruct r as [rs|]; [|unfold conv; rewrite run_stage_done; reflexivity].
  destruct (r_rb rs) as [l|].
  - rewrite run_stage_S. cbn [block app]. rewrite app_nil_r.
    destruct (conv_done (upd_after_rb c dl rs (cs_rollback c (cs_clear_events c d0) l)
                            (map NEvent evs ++ [NCheck (mk_request c ch)]))) as (y & dd & ll & E).
    rewrite E. apply (run_stage_mono 4 0). rewrite <- E. apply after_rb_refine.
  - destruct (conv_done (upd_after_rb c dl rs (cs_clear_events c d0)
                            (map NEvent evs ++ [NCheck (mk_request c ch)]))) as (y & dd & ll & E).
    rewrite E. apply (run_stage_mono 4 1). rewrite <- E. apply after_rb_refine.
Qed.

(* same for check *)
Definition conv_c (x : disk * bool * list netobs) : stage * disk * list netobs :=
  let '(d, b, log) := x in (GDone (RBool b), d, log).

Lemma check_blocks_refine c d ch r :
  run_stage 5 c (GChk ch r CCfg) d [] = conv_c (do_check c d ch r).
Proof.
  unfold Model.do_check, conv_c, Model.should_install.
  rewrite run_stage_S. cbn [block app].
  destruct r as [rs|]; [|rewrite run_stage_done; reflexivity].
  assert (Tail : forall dd, run_stage 3 c (after_rb_c ch (Some rs) rs) dd [NCheck (mk_request c ch)] =
            (let '(d0, b, log) :=
               match r_patch rs with
               | Some p =>
                   let '(d2, sh) :=
                     let '(d1, isbad) := cs_is_bad c dd (p_num p) in
                     if isbad then (d1, ShBad)
                     else let '(d2, r0) := cs_next c d1 in
                          match r0 with
                          | Some k => if N.eqb k (p_num p) then (d2, ShAlready) else (d2, ShOk)
                          | None => (d2, ShOk)
                          end in
                   (d2, match sh with ShOk => true | _ => false end, [NCheck (mk_request c ch)])
               | None => (dd, false, [NCheck (mk_request c ch)])
               end in (GDone (RBool b), d0, log))).
  { intros dd. unfold after_rb_c. destruct (r_patch rs) as [p|]; [|rewrite run_stage_done; reflexivity].
    rewrite run_stage_S. cbn [block app].
    destruct (cs_is_bad c dd (p_num p)) as [d1 b]. destruct b; [rewrite run_stage_done; reflexivity|].
    rewrite run_stage_S. cbn [block app]. destruct (cs_next c d1) as [d2 k]. rewrite run_stage_done.
    destruct k as [n|]; [|reflexivity]. destruct (N.eqb n (p_num p)); reflexivity. }
  destruct (r_rb rs) as [l|].
  - rewrite run_stage_S. cbn [block app]. rewrite Tail. reflexivity.
  - pose proof (Tail d) as T.
    destruct (r_patch rs) as [p|] eqn:Ep.
    + match type of T with _ = ?rhs => destruct rhs as [[g dd] ll] eqn:E end.
      assert (exists y, g = GDone y) as [y ->].
      { revert E. destruct (cs_is_bad c d (p_num p)) as [d1 b]. destruct b; [intros E; injection E as <- _ _; eauto|].
        destruct (cs_next c d1) as [d2 k]. destruct k as [n|]; [destruct (N.eqb n (p_num p))|];
          intros E; injection E as <- _ _; eauto. }
      apply (run_stage_mono 3 1). exact T.
    + apply (run_stage_mono 3 1). exact T.
Qed.

Local Transparent Model.cs_next Model.cs_start Model.cs_success Model.cs_failure Model.cs_init_recover
      Model.cs_rollback Model.cs_install Model.cs_copy_events Model.cs_is_bad
      Model.cs_clear_events Model.inflate Model.hash_ok Model.cs_current Model.mk_request Model.mk_event.

(* ---------- interleavings ---------- *)
(* threads: each has the stage of its current call and the calls still to come *)
Record thread := { t_stage : stage; t_todo : list op; t_outs : list out }.
Definition mk_thread (ops : list op) : thread :=
  match ops with
  | [] => {| t_stage := GDone RUnit; t_todo := []; t_outs := [] |}
  | o :: rest => {| t_stage := stage_of o; t_todo := rest; t_outs := [] |}
  end.

Definition thread_done (t : thread) : bool :=
  match t_stage t, t_todo t with GDone _, [] => true | _, _ => false end.

(* thread t takes the config mutex once *)
Definition thread_step (c : cfg) (t : thread) (d : disk) : thread * disk * list netobs :=
  let '(g, d', l) := block c (t_stage t) d in
  match g with
  | GDone x =>
      match t_todo t with
      | [] => ({| t_stage := GDone x; t_todo := []; t_outs := t_outs t ++ [x] |}, d', l)
      | o :: rest => ({| t_stage := stage_of o; t_todo := rest; t_outs := t_outs t ++ [x] |}, d', l)
      end
  | _ => ({| t_stage := g; t_todo := t_todo t; t_outs := t_outs t |}, d', l)
  end.

Fixpoint set_nth {A} (n : nat) (x : A) (l : list A) : list A :=
  match l, n with
  | [], _ => []
  | _ :: r, O => x :: r
  | y :: r, S n' => y :: set_nth n' x r
  end.

(* the update mutex: try_lock at the first stage of an update; held until the update call ends *)
Definition is_try (g : stage) : bool :=
  match g with GUpd _ _ _ _ UTry => true | _ => false end.
Definition in_update (g : stage) : bool :=
  match g with GUpd _ _ _ _ UTry => false | GUpd _ _ _ _ _ => true | _ => false end.

(* an update that finds the mutex taken returns at once: no block, no disk access, no network *)
Definition refuse_update (t : thread) : thread :=
  let x := RStatus (-1) in
  match t_todo t with
  | [] => {| t_stage := GDone x; t_todo := []; t_outs := t_outs t ++ [x] |}
  | o :: rest => {| t_stage := stage_of o; t_todo := rest; t_outs := t_outs t ++ [x] |}
  end.

Definition thread_step_b (c : cfg) (i : nat) (t : thread) (d : disk) (busy : option nat)
  : thread * disk * list netobs * option nat :=
  if is_try (t_stage t) then
    match busy with
    | Some _ => (refuse_update t, d, [], busy)
    | None => let '(t', d', l) := thread_step c t d in (t', d', l, Some i)
    end
  else
    let '(t', d', l) := thread_step c t d in
    (t', d', l, if in_update (t_stage t) && negb (in_update (t_stage t')) then None else busy).

(* a schedule is the list of thread indices in the order they win the next lock they ask for *)
Fixpoint sched (c : cfg) (ts : list thread) (d : disk) (busy : option nat) (order : list nat)
         (log : list netobs) : list thread * disk * list netobs :=
  match order with
  | [] => (ts, d, log)
  | i :: rest =>
      match nth_error ts i with
      | None => sched c ts d busy rest log
      | Some t =>
          if thread_done t then sched c ts d busy rest log
          else let '(t', d', l, busy') := thread_step_b c i t d busy in
               sched c (set_nth i t' ts) d' busy' rest (log ++ l)
      end
  end.

Lemma thread_step_b_disk c i t d busy :
  snd (fst (fst (thread_step_b c i t d busy))) = d \/
  snd (fst (fst (thread_step_b c i t d busy))) = snd (fst (thread_step c t d)).
Proof.
  unfold thread_step_b. destruct (is_try (t_stage t)).
  - destruct busy; [left; reflexivity|]. right. destruct (thread_step c t d) as [[? ?] ?]. reflexivity.
  - right. destruct (thread_step c t d) as [[? ?] ?]. reflexivity.
Qed.

(* ---------- what holds after every block of every call, hence for every interleaving ---------- *)
Lemma block_IbanD c g d : IbanD d -> IbanD (snd (fst (block c g d))).
Proof.
  intros H. destruct g as [x|o|ch r dl log u|ch r cs]; cbn [block].
  - exact H.
  - destruct o; cbn [fst snd]; auto.
    + pose proof (cs_next_IbanD sha sigok c d H). destruct (cs_next c d). exact H0.
    + pose proof (cs_next_IbanD sha sigok c d H). destruct (cs_next c d). exact H0.
    + pose proof (cs_current_IbanD c d H). destruct (cs_current c d). exact H0.
    + apply cs_start_IbanD. exact H.
    + pose proof (cs_success_IbanD c d H). destruct (cs_success c d). exact H0.
    + pose proof (cs_failure_IbanD sha sigok c d H). destruct (cs_failure c d). exact H0.
  - destruct u; cbn [fst snd]; auto.
    + pose proof (cs_copy_events_IbanD c d H). destruct (cs_copy_events c d). exact H0.
    + apply cs_clear_events_IbanD. exact H.
    + apply cs_rollback_IbanD. exact H.
    + pose proof (cs_is_bad_IbanD c d (p_num p) H). destruct (cs_is_bad c d (p_num p)). exact H0.
    + pose proof (cs_next_IbanD sha sigok c d H). destruct (cs_next c d) as [d' k].
      destruct (match k with Some n => N.eqb n (p_num p) | None => false end); exact H0.
    + pose proof (cs_install_IbanD c d p out H). destruct (cs_install c d p out). exact H0.
  - destruct cs; cbn [fst snd]; auto.
    + apply cs_rollback_IbanD. exact H.
    + pose proof (cs_is_bad_IbanD c d (p_num p) H). destruct (cs_is_bad c d (p_num p)). exact H0.
    + pose proof (cs_next_IbanD sha sigok c d H). destruct (cs_next c d). exact H0.
Qed.

Lemma block_BM c g d : stable (c_rel c) d -> BM (c_rel c) d (snd (fst (block c g d))).
Proof.
  intros S. destruct g as [x|o|ch r dl log u|ch r cs]; cbn [block].
  - apply BM_refl; auto.
  - destruct o; cbn [fst snd]; try (apply BM_refl; auto; fail).
    + pose proof (cs_next_BM sha sigok c d S). destruct (cs_next c d). exact H.
    + pose proof (cs_next_BM sha sigok c d S). destruct (cs_next c d). exact H.
    + cbn. rewrite (norm_id c d S). apply BM_refl; auto.
    + apply cs_start_BM. exact S.
    + pose proof (cs_success_BM c d S). destruct (cs_success c d). exact H.
    + pose proof (cs_failure_BM sha sigok c d S). destruct (cs_failure c d). exact H.
  - destruct u; cbn [fst snd]; try (apply BM_refl; auto; fail).
    + pose proof (cs_copy_events_BM c d S). destruct (cs_copy_events c d). exact H.
    + apply cs_clear_events_BM. exact S.
    + apply cs_rollback_BM. exact S.
    + cbn. rewrite (norm_id c d S). apply BM_refl; auto.
    + pose proof (cs_next_BM sha sigok c d S). destruct (cs_next c d) as [d' k].
      destruct (match k with Some n => N.eqb n (p_num p) | None => false end); exact H.
    + pose proof (cs_install_BM c d p out S). destruct (cs_install c d p out). exact H.
  - destruct cs; cbn [fst snd]; try (apply BM_refl; auto; fail).
    + apply cs_rollback_BM. exact S.
    + cbn. rewrite (norm_id c d S). apply BM_refl; auto.
    + pose proof (cs_next_BM sha sigok c d S). destruct (cs_next c d). exact H.
Qed.

(* a query block reports only an intact patch — wherever it falls in an interleaving *)
Lemma block_query_intact c o d d' x l n :
  block c (GOne o) d = (GDone x, d', l) -> reports o x n -> intact sha sigok (c_key c) d' n.
Proof.
  intros Hb [(-> & -> & Hn) | (-> & ->)]; cbn [block] in Hb.
  - destruct (cs_next c d) as [d1 r] eqn:E.
    assert (d1 = d') by congruence. subst d1.
    assert (Hr : match r with Some k => k | None => 0 end = n) by congruence.
    destruct r as [k|]; [|congruence]. subst k. eapply cs_next_intact; eauto.
  - destruct (cs_next c d) as [d1 r] eqn:E.
    assert (d1 = d') by congruence. subst d1. assert (r = Some n) by congruence. subst r.
    eapply cs_next_intact; eauto.
Qed.

(* the install block never installs a banned number, whatever the thread decided earlier *)
Lemma install_block_respects_ban c ch r dl log p out d :
  In (p_num p) (bad (load_p (norm c d))) ->
  block c (GUpd ch r dl log (UIns p out)) d = (GDone (RStatus 3), norm c d, []).
Proof.
  intros H. cbn [block]. unfold Model.cs_install. apply inb_In in H. rewrite H. reflexivity.
Qed.

Definition Safe (r : string) (d : disk) : Prop := stable r d /\ IbanD d.

Lemma thread_step_Safe c t d : Safe (c_rel c) d -> Safe (c_rel c) (snd (fst (thread_step c t d))).
Proof.
  intros [S I]. unfold thread_step.
  pose proof (block_IbanD c (t_stage t) d I) as H1.
  pose proof (block_BM c (t_stage t) d S) as H2.
  destruct (block c (t_stage t) d) as [[g d'] l]. cbn in *.
  destruct g; try (split; [exact (proj1 H2)|exact H1]).
  destruct (t_todo t); split; try exact (proj1 H2); exact H1.
Qed.

Lemma thread_step_bad_mono c t d n :
  stable (c_rel c) d -> In n (bad (load_p d)) -> In n (bad (load_p (snd (fst (thread_step c t d))))).
Proof.
  intros S Hn. unfold thread_step.
  pose proof (block_BM c (t_stage t) d S) as H2.
  destruct (block c (t_stage t) d) as [[g d'] l]. cbn in *.
  assert (In n (bad (load_p d'))) by (apply (proj2 H2), Hn).
  destruct g; auto. destruct (t_todo t); auto.
Qed.

(* C11: for EVERY schedule of EVERY set of threads running ANY calls: the disk stays a state of
   the release, I-ban holds, and a number that is banned stays banned and unselected *)
Theorem any_schedule_safe c order : forall ts d busy log,
  Safe (c_rel c) d -> Safe (c_rel c) (snd (fst (sched c ts d busy order log))).
Proof.
  induction order as [|i rest IH]; intros ts d busy log H; cbn [sched]; auto.
  destruct (nth_error ts i) as [t|]; auto.
  destruct (thread_done t); auto.
  pose proof (thread_step_Safe c t d H) as H1.
  destruct (thread_step_b_disk c i t d busy) as [E|E];
    destruct (thread_step_b c i t d busy) as [[[t' d'] l] busy']; cbn in E; subst d'; apply IH; auto.
Qed.

Theorem any_schedule_keeps_ban c n order : forall ts d busy log,
  Safe (c_rel c) d -> In n (bad (load_p d)) ->
  let d' := snd (fst (sched c ts d busy order log)) in
  In n (bad (load_p d')) /\ numeq (nb (load_p d')) n = false.
Proof.
  induction order as [|i rest IH]; intros ts d busy log H Hn; cbn [sched].
  - split; auto. destruct H as [_ I]. destruct (I n Hn) as [A _]. exact A.
  - destruct (nth_error ts i) as [t|]; [|apply IH; auto].
    destruct (thread_done t); [apply IH; auto|].
    pose proof (thread_step_Safe c t d H) as H1.
    pose proof (thread_step_bad_mono c t d n (proj1 H) Hn) as H2.
    destruct (thread_step_b_disk c i t d busy) as [E|E];
      destruct (thread_step_b c i t d busy) as [[[t' d'] l] busy']; cbn in E; subst d'; apply IH; auto.
Qed.

(* C12: a second update requested while one is running returns at once with an error: it takes no
   lock, touches no state, performs no network I/O *)
Theorem second_update_refused c i t d j :
  is_try (t_stage t) = true ->
  thread_step_b c i t d (Some j) = (refuse_update t, d, [], Some j) /\
  exists rest, t_outs (refuse_update t) = t_outs t ++ [RStatus (-1)] /\ rest = t_todo t.
Proof.
  intros H. unfold thread_step_b. rewrite H. split; [reflexivity|].
  exists (t_todo t). split; [|reflexivity]. unfold refuse_update. destruct (t_todo t); reflexivity.
Qed.

(* ---------- no interleaving loses the last good patch ---------- *)
Notation SelD := (SelD sha sigok).

(* what a block must satisfy to leave the last good patch m alone: everything except the boot
   success of another number, the failure of m, a rollback naming m, an install of m's own number
   (or one inconsistent with the records on disk) *)
Definition block_ok_lb (m : meta) (g : stage) (d : disk) : Prop :=
  match g with
  | GOne OSuccess => forall b, cb (load_p d) = Some b -> m_num b = m_num m
  | GOne OFailure => forall b, cb (load_p d) = Some b -> m_num b <> m_num m
  | GUpd _ _ _ _ (URb _ l) => ~ In (m_num m) l
  | GChk _ _ (CRb _ l) => ~ In (m_num m) l
  | GUpd _ _ _ _ (UIns p out) => m_num m <> p_num p /\ consistent (load_p d) (new_meta p out)
  | _ => True
  end.

Lemma block_LB c g d m :
  stable (c_rel c) d -> SelD SLB (c_key c) d m -> block_ok_lb m g d ->
  SelD SLB (c_key c) (snd (fst (block c g d))) m.
Proof.
  intros S H Hn. destruct g as [x|o|ch r dl log u|ch r cs]; cbn [block].
  - exact H.
  - destruct o; cbn [fst snd]; auto.
    + pose proof (cs_next_SelD sha sigok SLB c d m S H). destruct (cs_next c d). exact H0.
    + pose proof (cs_next_SelD sha sigok SLB c d m S H). destruct (cs_next c d). exact H0.
    + cbn. rewrite (norm_id c d S). exact H.
    + apply cs_start_SelD; auto. discriminate.
    + pose proof (cs_success_SelD_LB sha sigok c d m S H Hn) as H1. destruct (cs_success c d). exact H1.
    + pose proof (cs_failure_SelD sha sigok zdec base SLB c d m) as H1. destruct (cs_failure c d). cbn in *.
      apply H1; auto. discriminate.
  - destruct u; cbn [fst snd]; auto.
    + cbn. rewrite (norm_id c d S). exact H.
    + apply cs_clear_events_SelD; auto.
    + apply cs_rollback_SelD; auto.
    + cbn. rewrite (norm_id c d S). exact H.
    + pose proof (cs_next_SelD sha sigok SLB c d m S H). destruct (cs_next c d) as [d' k].
      destruct (match k with Some n => N.eqb n (p_num p) | None => false end); exact H0.
    + destruct Hn as [Hn1 Hn2].
      pose proof (cs_install_SelD sha sigok SLB c d p out m) as H1. destruct (cs_install c d p out). cbn in *.
      apply H1; auto. discriminate.
  - destruct cs; cbn [fst snd]; auto.
    + apply cs_rollback_SelD; auto.
    + cbn. rewrite (norm_id c d S). exact H.
    + pose proof (cs_next_SelD sha sigok SLB c d m S H). destruct (cs_next c d). exact H0.
Qed.

(* the schedule executes only blocks that satisfy P *)
Fixpoint sched_all (P : stage -> disk -> Prop) (c : cfg) (ts : list thread) (d : disk)
         (busy : option nat) (order : list nat) : Prop :=
  match order with
  | [] => True
  | i :: rest =>
      match nth_error ts i with
      | None => sched_all P c ts d busy rest
      | Some t =>
          if thread_done t then sched_all P c ts d busy rest
          else P (t_stage t) d /\
               let '(t', d', _, busy') := thread_step_b c i t d busy in
               sched_all P c (set_nth i t' ts) d' busy' rest
      end
  end.

Lemma thread_step_disk c t d : snd (fst (thread_step c t d)) = snd (fst (block c (t_stage t) d)).
Proof.
  unfold thread_step. destruct (block c (t_stage t) d) as [[g d'] l]. cbn.
  destruct g; auto. destruct (t_todo t); auto.
Qed.

Theorem any_schedule_keeps_last_good c m order : forall ts d busy log,
  stable (c_rel c) d -> SelD SLB (c_key c) d m ->
  sched_all (block_ok_lb m) c ts d busy order ->
  SelD SLB (c_key c) (snd (fst (sched c ts d busy order log))) m.
Proof.
  induction order as [|i rest IH]; intros ts d busy log S H HA; cbn [sched sched_all] in *; auto.
  destruct (nth_error ts i) as [t|]; [|apply IH; auto].
  destruct (thread_done t); [apply IH; auto|].
  destruct HA as [Hp HA].
  pose proof (block_LB c (t_stage t) d m S H Hp) as H1.
  pose proof (block_BM c (t_stage t) d S) as H2.
  rewrite <- thread_step_disk in H1, H2.
  destruct (thread_step_b_disk c i t d busy) as [E|E];
    destruct (thread_step_b c i t d busy) as [[[t' d'] l] busy']; cbn in E; subst d'; apply IH; auto.
  exact (proj1 H2).
Qed.


(* ---------- C12: lock / network actions of the calling thread ---------- *)
(* events reported by the calling thread itself (queued failures); download and install-success
   events are reported by helper threads spawned for that purpose *)
Definition own_net (n : netobs) : bool :=
  match n with
  | NEvent e => match e_kind e with EvInstallFailure => true | _ => false end
  | _ => true
  end.

Definition block_actions (c : cfg) (g : stage) (d : disk) : list action :=
  let '(g', _, l) := block c g d in
  match g with
  | GDone _ => []
  | GUpd _ _ _ _ UTry => [TryUpd true]
  | _ => AcqCfg :: RelCfg :: map Net (filter own_net l)
  end ++ (if in_update g && negb (in_update g') then [RelUpd] else []).

Fixpoint stage_actions (fuel : nat) (c : cfg) (g : stage) (d : disk) : list action :=
  match fuel with
  | O => []
  | S f => match g with
           | GDone _ => []
           | _ => let '(g', d', _) := block c g d in block_actions c g d ++ stage_actions f c g' d'
           end
  end.

(* depth of the config mutex and whether the update mutex is held, along a trace *)
Fixpoint wf_go (depth : nat) (upd : bool) (l : list action) : option (nat * bool) :=
  match l with
  | [] => Some (depth, upd)
  | a :: r =>
      match a with
      | AcqCfg => if Nat.eqb depth 0 then wf_go 1 upd r else None          (* no re-entry *)
      | RelCfg => if Nat.eqb depth 1 then wf_go 0 upd r else None
      | Net _ => if Nat.eqb depth 0 then wf_go depth upd r else None        (* no network under the lock *)
      | TryUpd ok => if Nat.eqb depth 0 && negb upd then wf_go depth ok r else None  (* never under cfg *)
      | RelUpd => if Nat.eqb depth 0 && upd then wf_go depth false r else None
      | Spawn => wf_go depth upd r
      end
  end.

Lemma wf_go_app d u l1 l2 :
  wf_go d u (l1 ++ l2) = match wf_go d u l1 with Some (d', u') => wf_go d' u' l2 | None => None end.
Proof.
  revert d u. induction l1 as [|a l1 IH]; intros d u; cbn [app wf_go]; auto.
  destruct a; repeat match goal with |- context [if ?x then _ else _] => destruct x end; auto.
Qed.

Lemma wf_go_nets u l : wf_go 0 u (map Net l) = Some (0%nat, u).
Proof. induction l as [|n l IH]; cbn; auto. Qed.

Definition rank (g : stage) : nat :=
  match g with
  | GDone _ => 0
  | GOne _ => 1
  | GUpd _ _ _ _ u => match u with
                      | UTry => 9 | UCfg => 8 | UCopy => 7 | UClear _ => 6 | URb _ _ => 5
                      | UBad _ _ => 4 | UNxt _ _ => 3 | UIns _ _ => 2
                      end
  | GChk _ _ cs => match cs with CCfg => 5 | CRb _ _ => 4 | CBad _ => 3 | CNxt _ => 2 end
  end%nat.

Lemma after_rb_u_rank ch r dl log rs : (rank (after_rb_u ch r dl log rs) <= 4)%nat.
Proof. unfold after_rb_u. destruct (negb (r_avail rs)); cbn; [lia|]. destruct (r_patch rs); cbn; lia. Qed.
Lemma after_rb_c_rank ch r rs : (rank (after_rb_c ch r rs) <= 3)%nat.
Proof. unfold after_rb_c. destruct (r_patch rs); cbn; lia. Qed.

Local Opaque Model.cs_next Model.cs_start Model.cs_success Model.cs_failure Model.cs_init_recover
      Model.cs_rollback Model.cs_install Model.cs_copy_events Model.cs_is_bad
      Model.cs_clear_events Model.inflate Model.hash_ok Model.cs_current Model.mk_request Model.mk_event.

(* every block strictly advances its call: calls terminate, nothing ever waits while holding a lock *)
Lemma block_rank c g d : g <> GDone (match g with GDone x => x | _ => RUnit end) ->
  (rank (fst (fst (block c g d))) < rank g)%nat.
Proof.
  intros Hg. destruct g as [x|o|ch r dl log u|ch r cs]; [exfalso; apply Hg; reflexivity| | |].
  - destruct o; cbn [block];
      repeat match goal with |- context [let '(_, _) := ?x in _] => destruct x end; cbn; lia.
  - destruct u; cbn [block];
      repeat match goal with
             | |- context [let '(_, _) := ?x in _] => destruct x
             end; cbn [fst snd rank]; try lia.
    + destruct r as [rs|]; cbn; [|lia]. destruct (r_rb rs); cbn; [lia|].
      pose proof (after_rb_u_rank ch (Some rs) dl log rs). lia.
    + pose proof (after_rb_u_rank ch r dl log rs). lia.
    + destruct b; cbn; lia.
    + destruct (match o with Some n => N.eqb n (p_num p) | None => false end); cbn; [lia|].
      destruct dl as [bdl|]; cbn; [|lia]. destruct (inflate bdl); cbn; [|lia].
      destruct (hash_ok _ _); cbn; lia.
  - destruct cs; cbn [block];
      repeat match goal with |- context [let '(_, _) := ?x in _] => destruct x end; cbn [fst snd rank]; try lia.
    + destruct r as [rs|]; cbn; [|lia]. destruct (r_rb rs); cbn; [lia|].
      pose proof (after_rb_c_rank ch (Some rs) rs). lia.
    + pose proof (after_rb_c_rank ch r rs). lia.
    + destruct b; cbn; lia.
Qed.

Lemma block_in_update_cases c g d :
  let g' := fst (fst (block c g d)) in
  (in_update g' = true -> in_update g = true \/ is_try g = true) /\
  (is_try g' = false \/ g = g').
Proof.
  destruct g as [x|o|ch r dl log u|ch r cs]; cbn [block].
  - cbn. split; [discriminate|right; reflexivity].
  - split.
    + destruct o; cbn;
        repeat match goal with |- context [let '(_, _) := ?x in _] => destruct x end; cbn; discriminate.
    + left. destruct o; cbn;
        repeat match goal with |- context [let '(_, _) := ?x in _] => destruct x end; reflexivity.
  - split; [intros _; destruct u; cbn; auto|].
    left. destruct u; cbn [block];
      repeat match goal with |- context [let '(_, _) := ?x in _] => destruct x end; cbn [fst]; try reflexivity.
    + destruct r as [rs|]; [|reflexivity]. destruct (r_rb rs); [reflexivity|].
      unfold after_rb_u. destruct (negb _); [reflexivity|]. destruct (r_patch rs); reflexivity.
    + unfold after_rb_u. destruct (negb _); [reflexivity|]. destruct (r_patch rs); reflexivity.
    + destruct b; reflexivity.
    + destruct (match o with Some n => N.eqb n (p_num p) | None => false end); [reflexivity|].
      destruct dl as [bdl|]; [|reflexivity]. destruct (inflate bdl); [|reflexivity].
      destruct (hash_ok _ _); reflexivity.
  - split.
    + destruct cs; cbn [block];
        repeat match goal with |- context [let '(_, _) := ?x in _] => destruct x end; cbn [fst]; try discriminate.
      * destruct r as [rs|]; [|discriminate]. destruct (r_rb rs); [discriminate|].
        unfold after_rb_c. destruct (r_patch rs); discriminate.
      * unfold after_rb_c. destruct (r_patch rs); discriminate.
      * destruct b; discriminate.
    + left. destruct cs; cbn [block];
        repeat match goal with |- context [let '(_, _) := ?x in _] => destruct x end; cbn [fst]; try reflexivity.
      * destruct r as [rs|]; [|reflexivity]. destruct (r_rb rs); [reflexivity|].
        unfold after_rb_c. destruct (r_patch rs); reflexivity.
      * unfold after_rb_c. destruct (r_patch rs); reflexivity.
      * destruct b; reflexivity.
Qed.

(* one block, started with the config mutex free and the update mutex held iff inside an update,
   ends the same way: the lock is taken once, released, and only then network callbacks run *)
Lemma block_actions_wf c g d :
  (forall x, g <> GDone x) ->
  wf_go 0 (in_update g) (block_actions c g d) = Some (0%nat, in_update (fst (fst (block c g d)))).
Proof.
  intros Hg. unfold block_actions.
  pose proof (block_in_update_cases c g d) as [Hin Htry].
  destruct (block c g d) as [[g' d'] l] eqn:E. cbn [fst] in *.
  destruct g as [x|o|ch r dl log u|ch r cs]; [exfalso; eapply Hg; reflexivity| | |].
  - (* single-block call *)
    assert (in_update g' = false).
    { destruct (in_update g') eqn:Eg; auto. destruct (Hin eq_refl); discriminate. }
    cbn [in_update andb app]. rewrite H. cbn [wf_go Nat.eqb]. rewrite app_nil_r. apply wf_go_nets.
  - destruct u.
    + (* try_lock *)
      cbn [block] in E. injection E as <- _ _. cbn. reflexivity.
    + cbn [in_update]. rewrite wf_go_app. cbn [wf_go Nat.eqb]. rewrite wf_go_nets.
      destruct (in_update g'); cbn; reflexivity.
    + cbn [in_update]. rewrite wf_go_app. cbn [wf_go Nat.eqb]. rewrite wf_go_nets.
      destruct (in_update g'); cbn; reflexivity.
    + cbn [in_update]. rewrite wf_go_app. cbn [wf_go Nat.eqb]. rewrite wf_go_nets.
      destruct (in_update g'); cbn; reflexivity.
    + cbn [in_update]. rewrite wf_go_app. cbn [wf_go Nat.eqb]. rewrite wf_go_nets.
      destruct (in_update g'); cbn; reflexivity.
    + cbn [in_update]. rewrite wf_go_app. cbn [wf_go Nat.eqb]. rewrite wf_go_nets.
      destruct (in_update g'); cbn; reflexivity.
    + cbn [in_update]. rewrite wf_go_app. cbn [wf_go Nat.eqb]. rewrite wf_go_nets.
      destruct (in_update g'); cbn; reflexivity.
    + cbn [in_update]. rewrite wf_go_app. cbn [wf_go Nat.eqb]. rewrite wf_go_nets.
      destruct (in_update g'); cbn; reflexivity.
  - assert (in_update g' = false).
    { destruct (in_update g') eqn:Eg; auto. destruct (Hin eq_refl); discriminate. }
    cbn [in_update andb app]. rewrite H. cbn [wf_go Nat.eqb]. rewrite app_nil_r. apply wf_go_nets.
Qed.

Theorem stage_actions_wf c : forall fuel g d,
  (rank g <= fuel)%nat ->
  wf_go 0 (in_update g) (stage_actions fuel c g d) = Some (0%nat, false).
Proof.
  induction fuel as [|f IH]; intros g d Hr.
  - destruct g as [x|o|? ? ? ? u|? ? cs]; [reflexivity | cbn in Hr; lia | destruct u; cbn in Hr; lia | destruct cs; cbn in Hr; lia].
  - destruct g as [x|o|ch r dl log u|ch r cs]; [reflexivity| | |].
    + cbn [stage_actions].
      pose proof (block_actions_wf c (GOne o) d) as Hb.
      pose proof (block_rank c (GOne o) d) as Hk.
      destruct (block c (GOne o) d) as [[g' d'] l]. cbn [fst] in *.
      rewrite wf_go_app, Hb by discriminate. apply IH.
      assert (rank g' < rank (GOne o))%nat by (apply Hk; discriminate). lia.
    + cbn [stage_actions].
      pose proof (block_actions_wf c (GUpd ch r dl log u) d) as Hb.
      pose proof (block_rank c (GUpd ch r dl log u) d) as Hk.
      destruct (block c (GUpd ch r dl log u) d) as [[g' d'] l]. cbn [fst] in *.
      rewrite wf_go_app, Hb by discriminate. apply IH.
      assert (rank g' < rank (GUpd ch r dl log u))%nat by (apply Hk; discriminate). lia.
    + cbn [stage_actions].
      pose proof (block_actions_wf c (GChk ch r cs) d) as Hb.
      pose proof (block_rank c (GChk ch r cs) d) as Hk.
      destruct (block c (GChk ch r cs) d) as [[g' d'] l]. cbn [fst] in *.
      rewrite wf_go_app, Hb by discriminate. apply IH.
      assert (rank g' < rank (GChk ch r cs))%nat by (apply Hk; discriminate). lia.
Qed.

(* the whole call, as the engine sees it: C12's three structural statements hold for every call
   from every state with any server behaviour *)
Definition call_actions (c : cfg) (o : op) (d : disk) : list action :=
  stage_actions 9 c (stage_of o) d.

Theorem call_actions_wf c o d : wf_go 0 false (call_actions c o d) = Some (0%nat, false).
Proof.
  unfold call_actions.
  assert (E : in_update (stage_of o) = false) by (destruct o; reflexivity).
  pose proof (stage_actions_wf c 9 (stage_of o) d) as H. rewrite E in H. apply H.
  destruct o; cbn; lia.
Qed.

(* stepping a thread that is not finished strictly decreases its remaining work: no call can wait
   for ever on a lock, and no cycle of waiting threads exists (a thread holds the config mutex only
   inside one block, and never asks for another lock there) *)
Definition work (t : thread) : nat := rank (t_stage t) + 10 * List.length (t_todo t).

Lemma stage_of_rank o : (1 <= rank (stage_of o) <= 9)%nat.
Proof. destruct o; cbn; lia. Qed.

Theorem step_decreases_work c i t d busy :
  thread_done t = false ->
  (work (fst (fst (fst (thread_step_b c i t d busy)))) < work t)%nat.
Proof.
  intros Hd. unfold thread_step_b, work.
  assert (Hcase : forall t', (t' = refuse_update t /\ is_try (t_stage t) = true) \/ t' = fst (fst (thread_step c t d)) ->
                  (rank (t_stage t') + 10 * List.length (t_todo t') < rank (t_stage t) + 10 * List.length (t_todo t))%nat).
  { intros t' [ [-> Ht] | -> ].
    - unfold refuse_update. destruct (t_stage t) as [| |? ? ? ? u|]; try discriminate. destruct u; try discriminate.
      destruct (t_todo t) as [|o rest]; cbn [t_stage t_todo rank List.length]; [lia|].
      pose proof (stage_of_rank o). lia.
    - unfold thread_step.
      pose proof (block_rank c (t_stage t) d) as Hk.
      unfold thread_done in Hd.
      destruct (t_stage t) as [x|o|ch r dl log u|ch r cs] eqn:Es;
        [|destruct (block c (GOne o) d) as [[g d'] l]
         |destruct (block c (GUpd ch r dl log u) d) as [[g d'] l]
         |destruct (block c (GChk ch r cs) d) as [[g d'] l]]; cbn [fst] in *.
      + destruct (t_todo t) as [|o rest] eqn:Et; [discriminate|].
        cbn [block fst t_stage t_todo rank List.length]. pose proof (stage_of_rank o). lia.
      + assert (rank g < 1)%nat by (apply Hk; discriminate).
        destruct g as [| |? ? ? ? u0|? ? c0]; cbn in H; try lia; try (destruct u0; lia); try (destruct c0; lia).
        destruct (t_todo t) as [|o2 rest]; cbn [fst t_stage t_todo rank List.length]; [lia|].
        pose proof (stage_of_rank o2). lia.
      + assert (Hlt : (rank g < rank (GUpd ch r dl log u))%nat) by (apply Hk; discriminate).
        destruct g; cbn [fst t_stage t_todo]; try lia.
        destruct (t_todo t) as [|o2 rest]; cbn [fst t_stage t_todo rank List.length] in *; [destruct u; cbn; lia|].
        pose proof (stage_of_rank o2). destruct u; cbn; lia.
      + assert (Hlt : (rank g < rank (GChk ch r cs))%nat) by (apply Hk; discriminate).
        destruct g; cbn [fst t_stage t_todo]; try lia.
        destruct (t_todo t) as [|o2 rest]; cbn [fst t_stage t_todo rank List.length] in *; [destruct cs; cbn; lia|].
        pose proof (stage_of_rank o2). destruct cs; cbn; lia. }
  destruct (is_try (t_stage t)) eqn:Et.
  - destruct busy.
    + cbn [fst]. apply Hcase. left. auto.
    + destruct (thread_step c t d) as [[t' d'] l] eqn:E. cbn [fst]. apply Hcase. right. reflexivity.
  - destruct (thread_step c t d) as [[t' d'] l] eqn:E. cbn [fst]. apply Hcase. right. reflexivity.
Qed.


(* what the calling thread does for any call in any world (initialised or not) *)
Definition world_actions (w : world) (o : op) : list action :=
  match o with
  | ODamage _ | OKill => []
  | OInit relv y pk =>
      match cfg_of relv y with
      | None => []
      | Some _ => if negb pk then []
                  else match w_cfg w with
                       | Some _ => [AcqCfg; RelCfg]
                       | None => [AcqCfg; RelCfg; AcqCfg; RelCfg]
                       end
      end
  | _ => match w_cfg w with
         | Some c => call_actions c o (w_disk w)
         | None => match o with
                   | OUpdate _ _ _ => [TryUpd true; AcqCfg; RelCfg; RelUpd]
                   | _ => [AcqCfg; RelCfg]
                   end
         end
  end.

Theorem world_actions_wf w o : wf_go 0 false (world_actions w o) = Some (0%nat, false).
Proof.
  unfold world_actions. destruct o; try reflexivity;
    try (destruct (w_cfg w); [apply call_actions_wf|reflexivity]).
  destruct (cfg_of relv y); [|reflexivity]. destruct paths_ok; [|reflexivity].
  destruct (w_cfg w); reflexivity.
Qed.

End Blocks.
