(* JsonWriteProofs.v — what the writer model writes is a sentence of the grammar, and is read back as what was written. *)
From UV Require Import Base Codec Model Json JsonProofs JsonText JsonTextProofs JsonTextSound JsonTextExist JsonState JsonStateProofs
  JsonStateExist JsonSj JsonSjProofs JsonSjWidth JsonSjExist JsonWrite.
From Coq Require Import ZifyN ZifyBool ZifyNat Lia.
Local Open Scope N_scope.
Arguments N.div : simpl never.
Arguments N.modulo : simpl never.
Arguments N.eqb : simpl never.
Arguments N.ltb : simpl never.
Arguments N.leb : simpl never.
Arguments String.eqb : simpl never.

(* ---------- strings ---------- *)
Lemma hexd_same n : JsonWrite.hexd n = JsonTextExist.hexd n.
Proof. reflexivity. Qed.

Lemma Item_esc_byte c : Item (esc_byte c) [c].
Proof.
  unfold esc_byte.
  destruct (N.eqb_spec c 34) as [->|N34]; [apply I_esc; [reflexivity|lia]|].
  destruct (N.eqb_spec c 92) as [->|N92]; [apply I_esc; [reflexivity|lia]|].
  destruct (N.eqb_spec c 8) as [->|N8]; [apply I_esc; [reflexivity|lia]|].
  destruct (N.eqb_spec c 12) as [->|N12]; [apply I_esc; [reflexivity|lia]|].
  destruct (N.eqb_spec c 10) as [->|N10]; [apply I_esc; [reflexivity|lia]|].
  destruct (N.eqb_spec c 13) as [->|N13]; [apply I_esc; [reflexivity|lia]|].
  destruct (N.eqb_spec c 9) as [->|N9]; [apply I_esc; [reflexivity|lia]|].
  destruct (N.ltb_spec c 32) as [H32|H32].
  - replace [c] with (utf8_enc c) by (unfold utf8_enc; assert (E : (c <? 128) = true) by lia; rewrite E; reflexivity).
    apply I_u.
    + rewrite !hexd_same. apply hex4_ctrl. exact H32.
    + unfold is_low_surrogate. lia.
    + unfold is_high_surrogate. lia.
  - apply I_raw; assumption.
Qed.

Lemma Body_esc s : Body (flat_map esc_byte s) s.
Proof.
  induction s as [|c s IH]; [constructor|]. cbn [flat_map]. change (c :: s) with ([c] ++ s).
  constructor; [apply Item_esc_byte|exact IH].
Qed.

Lemma Gstr_w_str s : utf8_valid s = true -> Gstr s (w_str s).
Proof. intros H. exists (flat_map esc_byte s). repeat split; [apply Body_esc|exact H]. Qed.

Lemma bytes_of_string_same s : bytes_of_string s = bytes_of s.
Proof. reflexivity. Qed.

Lemma G_w_string s : utf8_valid (bytes_of s) = true -> G (JStr s) (w_string s).
Proof.
  intros H. unfold w_string. replace (bytes_of_string s) with (bytes_of s) by reflexivity. rewrite <- (str_of_bytes_of s) at 1. constructor.
  apply Gstr_w_str. exact H.
Qed.

(* ---------- numbers ---------- *)
Lemma w_digits_S f n acc :
  w_digits (S f) n acc = if n <? 10 then (48 + n mod 10) :: acc else w_digits f (n / 10) ((48 + n mod 10) :: acc).
Proof. reflexivity. Qed.

Lemma w_digits_spec : forall f n acc, n < 10 ^ N.of_nat (S f) ->
  exists ds, w_digits (S f) n acc = ds ++ acc /\ AllDig ds /\ ds <> [] /\ val_from 0 ds = n /\
             (n <> 0 -> match ds with d :: _ => d <> 48 | [] => False end) /\ (n = 0 -> ds = [48]).
Proof.
  induction f as [|f IH]; intros n acc Hn; rewrite w_digits_S; destruct (N.ltb_spec n 10) as [Hlt|Hge].
  - exists [48 + n mod 10]. rewrite N.mod_small by exact Hlt. repeat split.
    + constructor; [unfold is_digit; lia|constructor].
    + discriminate.
    + unfold val_from. cbn [fold_left]. lia.
    + intros Hz. lia.
    + intros ->. reflexivity.
  - exfalso. change (10 ^ N.of_nat 1) with 10 in Hn. lia.
  - exists [48 + n mod 10]. rewrite N.mod_small by exact Hlt. repeat split.
    + constructor; [unfold is_digit; lia|constructor].
    + discriminate.
    + unfold val_from. cbn [fold_left]. lia.
    + intros Hz. lia.
    + intros ->. reflexivity.
  - assert (Hq : n / 10 < 10 ^ N.of_nat (S f)).
    { rewrite (Nat2N.inj_succ (S f)), N.pow_succ_r' in Hn. apply N.div_lt_upper_bound; lia. }
    destruct (IH (n / 10) ((48 + n mod 10) :: acc) Hq) as (ds & E & Hd & Hne & Hval & Hlead & _).
    exists (ds ++ [48 + n mod 10]). repeat split.
    + rewrite E. rewrite <- app_assoc. reflexivity.
    + apply AllDig_app; [exact Hd|]. constructor; [|constructor].
      assert (n mod 10 < 10) by (apply N.mod_lt; lia). unfold is_digit. lia.
    + destruct ds; discriminate.
    + rewrite val_from_app, Hval. assert (n mod 10 < 10) by (apply N.mod_lt; lia).
      pose proof (N.div_mod n 10 ltac:(lia)). lia.
    + intros _. assert (Hq0 : n / 10 <> 0). { intros E0. apply N.div_small_iff in E0; lia. }
      specialize (Hlead Hq0). destruct ds as [|d ds']; [contradiction|]. cbn [app]. exact Hlead.
    + intros ->. lia.
Qed.

Lemma IntPart_w_num v : v < two64 -> IntPart (w_num v) v.
Proof.
  intros Hv. unfold w_num.
  assert (H20 : v < 10 ^ N.of_nat 20) by (unfold two64, Codec.two64 in Hv; change (10 ^ N.of_nat 20) with 100000000000000000000; lia).
  destruct (w_digits_spec 19 v [] H20) as (ds & E & Hd & Hne & Hval & Hlead & Hz).
  rewrite E, app_nil_r.
  destruct (N.eq_dec v 0) as [->|Hnz].
  - rewrite (Hz eq_refl). constructor.
  - specialize (Hlead Hnz). destruct ds as [|d ds']; [contradiction|].
    rewrite <- Hval. inversion Hd; subst. constructor; assumption.
Qed.

Lemma G_w_num v : v < two64 -> G (JNum (JInt false v)) (w_num v).
Proof.
  intros Hv. constructor. exists false, (w_num v), v, [], false, [], false.
  repeat split; try constructor.
  - cbn [app]. rewrite !app_nil_r. reflexivity.
  - apply IntPart_w_num. exact Hv.
  - unfold classify. assert (E : (v <? two64) = true) by lia. cbn. rewrite ?E. reflexivity.
Qed.

(* ---------- layout ---------- *)
Lemma WS_nl k : WS (nl k).
Proof. unfold nl. constructor; [reflexivity|]. apply Forall_forall. intros x Hx. apply repeat_spec in Hx. subst x. reflexivity. Qed.
Lemma WS_sp : WS [32]. Proof. repeat constructor. Qed.

(* members (key, tree, rendered value) whose keys are fields of the struct *)
Lemma GSM_w_members fs indent : forall (l : list (string * json * bytes)), l <> [] ->
  Forall (fun x => utf8_valid (bytes_of (fst (fst x))) = true /\ GSV fs (fst (fst x)) (snd (fst x)) (snd x)) l ->
  GSM fs (map (fun x => (fst (fst x), snd (fst x))) l) (w_members indent (map (fun x => (fst (fst x), snd x)) l)).
Proof.
  induction l as [|[[k v] vb] l IH]; intros Hne HF; [contradiction|].
  inversion HF as [|? ? [Hk Hv] HF']; subst. cbn [fst snd] in *.
  destruct l as [|x l'].
  - cbn [map fst snd w_members].
    rewrite <- (str_of_bytes_of k) at 1. unfold w_string. replace (bytes_of_string k) with (bytes_of k) by reflexivity.
    apply GSM_last; auto using WSnil, WS_sp, WS_nl, Gstr_w_str. rewrite str_of_bytes_of. exact Hv.
  - specialize (IH ltac:(discriminate) HF').
    change (map (fun x0 => (fst (fst x0), snd (fst x0))) ((k, v, vb) :: x :: l'))
      with ((k, v) :: map (fun x0 => (fst (fst x0), snd (fst x0))) (x :: l')).
    change (map (fun x0 => (fst (fst x0), snd x0)) ((k, v, vb) :: x :: l'))
      with ((k, vb) :: map (fun x0 => (fst (fst x0), snd x0)) (x :: l')).
    destruct x as [[k2 v2] vb2]. cbn [map fst snd] in *. cbn [w_members].
    rewrite <- (str_of_bytes_of k) at 1. unfold w_string at 1. replace (bytes_of_string k) with (bytes_of k) by reflexivity.
    apply GSM_cons; auto using WSnil, WS_sp, WS_nl, Gstr_w_str. rewrite str_of_bytes_of. exact Hv.
Qed.

Lemma GS_w_object fs indent (l : list (string * json * bytes)) : l <> [] ->
  Forall (fun x => utf8_valid (bytes_of (fst (fst x))) = true /\ GSV fs (fst (fst x)) (snd (fst x)) (snd x)) l ->
  GS (SStruct fs) (JObj (map (fun x => (fst (fst x), snd (fst x))) l)) (w_object indent (map (fun x => (fst (fst x), snd x)) l)).
Proof. intros Hne HF. unfold w_object. apply GS_obj; [apply WS_nl|]. apply GSM_w_members; assumption. Qed.

(* arrays of numbers *)
Lemma GE_w_nums indent : forall l, l <> [] -> Forall (fun n => n < two64) l ->
  GE (map (fun n => JNum (JInt false n)) l) (w_elems indent (map w_num l)).
Proof.
  induction l as [|n l IH]; intros Hne HF; [contradiction|].
  inversion HF as [|? ? Hn HF']; subst.
  destruct l as [|m l'].
  - cbn [map w_elems]. apply GE_last; [apply G_w_num; exact Hn|apply WS_nl].
  - specialize (IH ltac:(discriminate) HF'). cbn [map] in *. cbn [w_elems].
    apply GE_cons; auto using WSnil, WS_nl. apply G_w_num. exact Hn.
Qed.
Lemma G_w_nums l : Forall (fun n => n < two64) l -> G (JArr (map (fun n => JNum (JInt false n)) l)) (w_array 1 (map w_num l)).
Proof.
  intros HF. destruct l as [|n l].
  - cbn [map w_array]. apply G_arr0. apply WSnil.
  - unfold w_array. cbn [map]. apply G_arr; [apply WS_nl|]. apply (GE_w_nums 2 (n :: l)); [discriminate|exact HF].
Qed.

Lemma G_w_ostring o : ostring_utf8 o -> G (json_of_ostring o) (w_ostring o).
Proof. destruct o as [s|]; intros H; cbn [json_of_ostring w_ostring]; [apply G_w_string; exact H|constructor]. Qed.

Ltac key_utf8 := vm_compute; reflexivity.

(* ---------- patches_state.json ---------- *)
Lemma GS_w_meta indent m : meta_in_range m -> meta_utf8 m -> GS meta_schema (json_of_meta m) (w_meta indent m).
Proof.
  intros [Hn Hz] [Hh Hs]. unfold w_meta, json_of_meta, meta_schema.
  apply (GS_w_object _ indent [("number"%string, JNum (JInt false (m_num m)), w_num (m_num m));
                                ("size"%string, JNum (JInt false (m_size m)), w_num (m_size m));
                                ("hash"%string, JStr (m_hash m), w_string (m_hash m));
                                ("signature"%string, json_of_ostring (m_sig m), w_ostring (m_sig m))]); [discriminate|].
  repeat constructor; cbn [fst snd]; try key_utf8.
  - eapply GSV_known; [reflexivity|]. constructor. apply G_w_num. exact Hn.
  - eapply GSV_known; [reflexivity|]. constructor. apply G_w_num. exact Hz.
  - eapply GSV_known; [reflexivity|]. constructor. apply G_w_string. exact Hh.
  - eapply GSV_known; [reflexivity|]. constructor. apply G_w_ostring. exact Hs.
Qed.

Lemma GS_w_ometa indent o : ometa_in_range o -> ometa_utf8 o -> GS meta_schema (json_of_ometa o) (w_ometa indent o).
Proof.
  destruct o as [m|]; intros Hr Hu; cbn [json_of_ometa w_ometa].
  - apply GS_w_meta; assumption.
  - apply GS_other; [constructor|intros r0; discriminate|intros r0; discriminate].
Qed.

Lemma GS_w_pstate s : pstate_in_range s -> pstate_utf8 s -> GS pstate_schema (json_of_pstate s) (w_pstate s).
Proof.
  intros (H1 & H2 & H3 & H4 & H5) (U1 & U2 & U3). unfold w_pstate, json_of_pstate, pstate_schema.
  apply (GS_w_object _ 0 [("last_booted_patch"%string, json_of_ometa (lb s), w_ometa 1 (lb s));
                           ("next_boot_patch"%string, json_of_ometa (nb s), w_ometa 1 (nb s));
                           ("currently_booting_patch"%string, json_of_ometa (cb s), w_ometa 1 (cb s));
                           ("known_bad_patches"%string, JArr (map (fun n => JNum (JInt false n)) (bad s)), w_array 1 (map w_num (bad s)))]);
    [discriminate|].
  repeat constructor; cbn [fst snd]; try key_utf8.
  - eapply GSV_known; [reflexivity|]. apply GS_w_ometa; assumption.
  - eapply GSV_known; [reflexivity|]. apply GS_w_ometa; assumption.
  - eapply GSV_known; [reflexivity|]. apply GS_w_ometa; assumption.
  - eapply GSV_known; [reflexivity|]. constructor. apply G_w_nums. exact H4.
Qed.

(* what the library writes for a state is read back as that state *)
Theorem written_pstate_is_read_back s : pstate_in_range s -> pstate_utf8 s -> pj_of_file (w_pstate s) = JOk s.
Proof.
  intros Hr Hu. unfold pj_of_file.
  rewrite (proj2 (pstate_of_body_iff (w_pstate s) s)); [reflexivity|].
  exists [], (w_pstate s), [], (json_of_pstate s). repeat split; try apply WSnil.
  - apply GS_w_pstate; assumption.
  - cbn [app]. rewrite app_nil_r. reflexivity.
  - apply pstate_roundtrip. exact Hr.
Qed.

(* ---------- state.json ---------- *)
Lemma evkind_wire_str k : evkind_wire k = evkind_str k.
Proof. destruct k; reflexivity. Qed.

Lemma GS_w_fevent indent e : fevent_in_range e -> fevent_utf8 e -> GS event_schema (json_of_fevent e) (w_fevent indent e).
Proof.
  intros [Hn Ht] (Ha & Hr & Hp & Hv & Hm). unfold w_fevent, json_of_fevent, event_schema. replace (evkind_wire (fe_kind e)) with (evkind_str (fe_kind e)) by (symmetry; apply evkind_wire_str).
  apply (GS_w_object _ indent [("app_id"%string, JStr (fe_app e), w_string (fe_app e)); ("arch"%string, JStr (fe_arch e), w_string (fe_arch e));
                                ("type"%string, JStr (evkind_str (fe_kind e)), w_string (evkind_str (fe_kind e)));
                                ("patch_number"%string, JNum (JInt false (fe_num e)), w_num (fe_num e));
                                ("platform"%string, JStr (fe_platform e), w_string (fe_platform e));
                                ("release_version"%string, JStr (fe_rel e), w_string (fe_rel e));
                                ("timestamp"%string, JNum (JInt false (fe_ts e)), w_num (fe_ts e));
                                ("message"%string, json_of_ostring (fe_msg e), w_ostring (fe_msg e))]); [discriminate|].
  repeat constructor; cbn [fst snd]; try key_utf8.
  - eapply GSV_known; [reflexivity|]. constructor. apply G_w_string. exact Ha.
  - eapply GSV_known; [reflexivity|]. constructor. apply G_w_string. exact Hr.
  - eapply GSV_known; [reflexivity|]. constructor. apply G_w_string. apply evkind_str_utf8.
  - eapply GSV_known; [reflexivity|]. constructor. apply G_w_num. exact Hn.
  - eapply GSV_known; [reflexivity|]. constructor. apply G_w_string. exact Hp.
  - eapply GSV_known; [reflexivity|]. constructor. apply G_w_string. exact Hv.
  - eapply GSV_known; [reflexivity|]. constructor. apply G_w_num. exact Ht.
  - eapply GSV_known; [reflexivity|]. constructor. apply G_w_ostring. exact Hm.
Qed.

Lemma GSE_w_fevents indent : forall q, q <> [] -> Forall fevent_in_range q -> Forall fevent_utf8 q ->
  forall n, (List.length q <= n)%nat ->
  GSE (repeat ("0"%string, event_schema) n) (map json_of_fevent q) (w_elems indent (map (w_fevent indent) q)).
Proof.
  induction q as [|e q IH]; intros Hne HR HU n Hn; [contradiction|].
  inversion HR as [|? ? Hr HR']; subst. inversion HU as [|? ? Hu HU']; subst.
  pose proof (GS_w_fevent indent e Hr Hu) as He. cbn [List.length] in Hn.
  destruct q as [|e' q'].
  - cbn [map w_elems]. apply GSE_last; [|apply WS_nl]. rewrite hd_schema_repeat by lia. exact He.
  - specialize (IH ltac:(discriminate) HR' HU' (pred n)). cbn [map] in *. cbn [w_elems].
    apply GSE_cons; auto using WSnil, WS_nl.
    + rewrite hd_schema_repeat by lia. exact He.
    + rewrite tl_repeat. apply IH. cbn [List.length] in *. lia.
Qed.

Lemma GS_w_fevent_vec q n : Forall fevent_in_range q -> Forall fevent_utf8 q -> (List.length q <= n)%nat ->
  GS (vec_schema n event_schema) (JArr (map json_of_fevent q)) (w_array 1 (map (w_fevent 2) q)).
Proof.
  intros HR HU Hn. destruct q as [|e q].
  - unfold vec_schema. cbn [map w_array]. apply GS_arr0. apply WSnil.
  - unfold vec_schema, w_array. cbn [map]. apply GS_arr; [apply WS_nl|].
    apply (GSE_w_fevents 2 (e :: q)); [discriminate|exact HR|exact HU|exact Hn].
Qed.

Lemma GS_w_fstate r q n : utf8_valid (bytes_of r) = true -> Forall fevent_in_range q -> Forall fevent_utf8 q ->
  (List.length q <= n)%nat -> GS (sstate_schema n) (json_of_fstate r q) (w_fstate r q).
Proof.
  intros Hr HR HU Hn. unfold w_fstate, json_of_fstate, sstate_schema.
  apply (GS_w_object _ 0 [("release_version"%string, JStr r, w_string r);
                           ("queued_events"%string, JArr (map json_of_fevent q), w_array 1 (map (w_fevent 2) q))]); [discriminate|].
  repeat constructor; cbn [fst snd]; try key_utf8.
  - eapply GSV_known; [reflexivity|]. constructor. apply G_w_string. exact Hr.
  - eapply GSV_known; [reflexivity|]. apply GS_w_fevent_vec; assumption.
Qed.

Theorem written_sstate_is_read_back r q :
  utf8_valid (bytes_of r) = true -> Forall fevent_in_range q -> Forall fevent_utf8 q ->
  sj_of_file (w_fstate r q) = JOk {| rel := r; evq := map event_of_fevent q |}.
Proof.
  intros Hr HR HU.
  set (n := (List.length (w_fstate r q) + List.length q)%nat).
  rewrite <- (sj_of_file_width n (w_fstate r q)) by (unfold n; lia).
  pose proof (spelled_state_is_read n r q [] (w_fstate r q) [] HR) as H. cbn [app] in H. rewrite app_nil_r in H.
  apply H; try apply WSnil. apply GS_w_fstate; try assumption. unfold n. lia.
Qed.

(* ---------- shape: every written file is '{' ... '}' ---------- *)
Lemma w_members_last indent ms : exists y, w_members indent ms = y ++ [125].
Proof.
  induction ms as [|[k v] ms (y & IH)]; [exists []; reflexivity|].
  destruct ms as [|m ms'].
  - exists (w_string k ++ [] ++ 58 :: [32] ++ v ++ nl (indent - 1)). cbn [w_members]. rewrite <- !app_assoc. cbn [app]. rewrite <- !app_assoc. reflexivity.
  - exists (w_string k ++ [] ++ 58 :: [32] ++ v ++ [] ++ 44 :: nl indent ++ y).
    change (w_members indent ((k, v) :: m :: ms')) with (w_string k ++ [] ++ 58 :: [32] ++ v ++ [] ++ 44 :: nl indent ++ w_members indent (m :: ms')).
    rewrite IH. rewrite <- !app_assoc. cbn [app]. rewrite <- !app_assoc. cbn [app]. rewrite <- !app_assoc. reflexivity.
Qed.

Lemma w_object_shape indent ms :
  (exists x, skip_ws (w_object indent ms) = 123 :: x) /\ (exists y, w_object indent ms = y ++ [125]).
Proof.
  unfold w_object. split.
  - cbn [skip_ws]. assert (E : is_ws 123 = false) by reflexivity. rewrite E. eauto.
  - destruct (w_members_last (S indent) ms) as (y & ->). exists (123 :: nl (S indent) ++ y). cbn [app]. rewrite <- app_assoc. reflexivity.
Qed.

Lemma w_pstate_shape s : (exists x, skip_ws (w_pstate s) = 123 :: x) /\ (exists y, w_pstate s = y ++ [125]).
Proof. unfold w_pstate. apply w_object_shape. Qed.
Lemma w_fstate_shape r q : (exists x, skip_ws (w_fstate r q) = 123 :: x) /\ (exists y, w_fstate r q = y ++ [125]).
Proof. unfold w_fstate. apply w_object_shape. Qed.

(* a save cut short anywhere leaves an unreadable file: for the very bytes the library writes *)
Lemma torn_any_pj (P : bytes) s p r :
  pj_of_file P = JOk s -> (exists x, skip_ws P = 123 :: x) -> (exists y, P = y ++ [125]) ->
  P = p ++ r -> r <> [] -> pj_of_file p = JGarbage.
Proof.
  intros Hread Hs He E Hne. unfold pj_of_file in Hread.
  destruct (pstate_of_body P) as [s'|] eqn:Eb; [|discriminate].
  exact (JsonTorn.torn_state_file_is_garbage P p r s' Eb E Hne Hs He).
Qed.

Theorem torn_written_pstate s p r : pstate_in_range s -> pstate_utf8 s ->
  w_pstate s = p ++ r -> r <> [] -> pj_of_file p = JGarbage.
Proof.
  intros Hr Hu E Hne.
  exact (torn_any_pj (w_pstate s) s p r (written_pstate_is_read_back s Hr Hu) (proj1 (w_pstate_shape s)) (proj2 (w_pstate_shape s)) E Hne).
Qed.

Theorem torn_written_sstate rl q p r :
  utf8_valid (bytes_of rl) = true -> Forall fevent_in_range q -> Forall fevent_utf8 q ->
  w_fstate rl q = p ++ r -> r <> [] -> sj_of_file p = JGarbage.
Proof.
  intros Hr HR HU E Hne.
  exact (torn_state_json (w_fstate rl q) p r _ (written_sstate_is_read_back rl q Hr HR HU) E Hne
           (proj1 (w_fstate_shape rl q)) (proj2 (w_fstate_shape rl q))).
Qed.
