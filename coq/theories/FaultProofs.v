(* FaultProofs.v — C04: what every system-call prefix (process death) and every single failing call
   of every operation leaves behind, and what the next launch makes of it. *)
From UV Require Import Base Codec Model PMLemmas Inv Ban Handout Calls Fault.
Arguments N.eqb : simpl never.
Arguments N.ltb : simpl never.
Arguments Nat.eqb : simpl never.

Definition disk_of {A} (r : outcome A * nat * disk) : disk := snd r.
Definition out_of {A} (r : outcome A * nat * disk) : outcome A := fst (fst r).

(* plans considered: [af] = are failing calls allowed (otherwise only death / no fault) *)
Definition okpl (af : bool) (pl : plan) : Prop :=
  match pl with FailAt _ _ => af = true | _ => True end.

(* I holds while the call is alive, S holds on the disk a dead process leaves, G on results *)
Definition pres {A} (af : bool) (I S : disk -> Prop) (G : A -> Prop) (m : M A) : Prop :=
  forall pl c d, okpl af pl -> I d ->
    match out_of (m pl c d) with
    | Died => S (disk_of (m pl c d))
    | Ret a => I (disk_of (m pl c d)) /\ G a
    | Err => I (disk_of (m pl c d))
    end.

Section Rules.
Context {af : bool} {I S : disk -> Prop}.
Hypothesis IS : forall d, I d -> S d.

Lemma pres_ret {A} (G : A -> Prop) a : G a -> pres af I S G (ret a).
Proof. intros H pl c d _ Hi. cbn. auto. Qed.

Lemma pres_fail {A} (G : A -> Prop) : pres af I S G (@fail A).
Proof. intros pl c d _ Hi. cbn. auto. Qed.

Lemma pres_get : pres af I S I get.
Proof. intros pl c d _ Hi. cbn. auto. Qed.

Lemma pres_bind {A B} (G : A -> Prop) (H : B -> Prop) (m : M A) (f : A -> M B) :
  pres af I S G m -> (forall a, G a -> pres af I S H (f a)) -> pres af I S H (bind m f).
Proof.
  intros Hm Hf pl c d Hp Hi. specialize (Hm pl c d Hp Hi). unfold bind, out_of, disk_of in *.
  destruct (m pl c d) as [[o c'] d']. cbn in *. destruct o as [a| |]; auto.
  destruct Hm as [Hi' Ga]. apply (Hf a Ga pl c' d' Hp Hi').
Qed.

Lemma pres_weaken {A} (G G' : A -> Prop) m : (forall a, G a -> G' a) -> pres af I S G m -> pres af I S G' m.
Proof.
  intros Hw Hm pl c d Hp Hi. specialize (Hm pl c d Hp Hi).
  destruct (out_of (m pl c d)); auto. destruct Hm; auto.
Qed.

Lemma pres_ignore {A} (G : A -> Prop) m : pres af I S G m -> pres af I S (fun _ => True) (ignore_err m).
Proof.
  intros Hm pl c d Hp Hi. specialize (Hm pl c d Hp Hi). unfold ignore_err, out_of, disk_of in *.
  destruct (m pl c d) as [[o c'] d']. cbn in *. destruct o; cbn; try (destruct Hm); auto.
Qed.

Lemma pres_attempt {A} (G : A -> Prop) m : pres af I S G m -> pres af I S (fun _ => True) (attempt m).
Proof.
  intros Hm pl c d Hp Hi. specialize (Hm pl c d Hp Hi). unfold attempt, out_of, disk_of in *.
  destruct (m pl c d) as [[o c'] d']. cbn in *. destruct o; cbn; try (destruct Hm); auto.
Qed.

(* one mutating call *)
Lemma pres_mut f g :
  (forall d, I d -> I (f d)) -> (forall sub d, I d -> S (g sub d)) ->
  (af = true -> forall sub d, I d -> I (g sub d)) ->
  pres af I S (fun _ => True) (mut f g).
Proof.
  intros Hf Hg Hfail pl c d Hp Hi. unfold mut, out_of, disk_of.
  destruct pl as [|k sub|k sub]; cbn.
  - auto.
  - destruct (Nat.eqb c k); cbn; auto.
  - destruct (Nat.eqb c k); cbn; auto.
Qed.

(* a read: nothing changes; death before it leaves the disk as it is *)
Lemma pres_rd : pres af I S (fun _ => True) rd.
Proof.
  intros pl c d Hp Hi. unfold rd, out_of, disk_of.
  destruct pl as [|k sub|k sub]; cbn; [auto| |]; destruct (Nat.eqb c k); cbn; auto.
Qed.

Lemma pres_rd_nofail : af = false -> pres af I S (fun b => b = true) rd.
Proof.
  intros Haf pl c d Hp Hi. unfold rd, out_of, disk_of.
  destruct pl as [|k sub|k sub]; cbn; [auto| |].
  - destruct (Nat.eqb c k); cbn; auto.
  - cbn in Hp. congruence.
Qed.

Lemma pres_touch f : (forall d, I d -> I (f d)) -> pres af I S (fun _ => True) (touch f).
Proof. intros Hf pl c d Hp Hi. unfold touch, out_of, disk_of. cbn. auto. Qed.

Lemma pres_mut_swallow f g :
  (forall d, I d -> I (f d)) -> (forall d, I d -> S (g d)) ->
  (af = true -> forall d, I d -> I (g d)) ->
  pres af I S (fun _ => True) (mut_swallow f g).
Proof.
  intros Hf Hg Hfail pl c d Hp Hi. unfold mut_swallow, out_of, disk_of.
  destruct pl as [|k sub|k sub]; cbn.
  - auto.
  - destruct (Nat.eqb c k); cbn; auto. destruct (N.eqb (sub 0) 0); auto.
  - destruct (Nat.eqb c k); cbn; auto.
Qed.

End Rules.

(* ================= generic development =================
   [Gd s] = the in-memory patch state is good: I-ban plus a monotone condition on the ban list.
   The primitives (state-file writes, artifact steps, the initial load) are assumed to preserve the
   alive invariant I / leave S at death; everything built from them then does too. *)
Section Gen.
Variable sha : bytes -> bytes.
Variable sigok : string -> string -> string -> bool.
Variable zdec : bytes -> bytes.
Variable base : bytes.
Variable af : bool.
Variables I S : disk -> Prop.
Variable Extra : list N -> Prop.
Variable Rs : sstate -> Prop.
Hypothesis Extra_mono : forall l l', incl l l' -> Extra l -> Extra l'.
Hypothesis IS_gen : forall d, I d -> S d.
Definition Gd (s : pstate) : Prop := Iban s /\ Extra (bad s).
Definition GLd (st : sstate * pstate) : Prop := Gd (snd st) /\ forall q, Rs {| rel := rel (fst st); evq := q |}.
Notation P := (pres af I S).
Hypothesis H_wpj : forall s, Gd s -> P (fun _ => True) (write_pj s).
Hypothesis H_wsj : forall s, Rs s -> P (fun _ => True) (write_sj s).
Hypothesis H_set : forall X, I X -> P (fun _ => True) (atomic (fun _ => X)).
Hypothesis I_arts : forall d a, I d -> I (set_arts d a).
Hypothesis H_sweep : forall s n, P (fun _ => True) (sweepM s n).
Variable c : cfg.
Hypothesis H_load : P GLd (loadM c).

Ltac step := eapply pres_bind; [|intros].
Ltac rt := apply (pres_ret (fun _ => True)); exact Logic.I.

Lemma G_rm_art n : P (fun _ => True) (rm_art n).
Proof.
  unfold rm_art. step; [apply pres_get|].
  destruct (arts a n) as [[|b]|].
  - apply H_set. apply I_arts. exact H.
  - step; apply H_set; apply I_arts; exact H.
  - apply pres_touch. intros d0 _. apply I_arts. exact H.
Qed.

Lemma G_validate key m : P (fun _ => True) (validateM sha sigok key m).
Proof.
  unfold validateM. step; [apply pres_get|].
  destruct key as [k|]; [|rt]. destruct (arts a (m_num m)) as [[|b]|]; try rt.
  destruct (m_sig m); [|rt]. destruct (N.eqb (blen b) (m_size m)); [|rt].
  step; [apply (pres_rd IS_gen)|]. rt.
Qed.

Definition GI (r : pstate * bool) : Prop := Gd (fst r).

Lemma G_fall_back key s badn : Gd s -> P GI (fall_backM sha sigok key s badn).
Proof.
  intros [H He]. unfold fall_backM. step; [eapply pres_ignore, G_rm_art|].
  assert (Hnb1 : forall n, In n (bad s) -> numeq (if numeq (nb s) badn then None else nb s) n = false).
  { intros n Hn. destruct (H n Hn) as [A _]. destruct (numeq (nb s) badn); auto. }
  destruct (lb s) as [l|] eqn:El.
  - step. { destruct (negb (N.eqb (m_num l) badn)); [apply G_validate|rt]. }
    destruct (negb (N.eqb (m_num l) badn) && a0) eqn:E.
    + assert (Hs : Gd {| lb := Some l; nb := match (if numeq (nb s) badn then None else nb s) with None => Some l | Some x => Some x end; cb := cb s; bad := bad s |}).
      { split; [|exact He]. intros n Hn. cbn in *. destruct (H n Hn) as (A & B & C). rewrite El in B.
        specialize (Hnb1 n Hn). destruct (if numeq (nb s) badn then None else nb s); cbn in *; auto. }
      step; [eapply pres_attempt, H_wpj; exact Hs|]. apply pres_ret. exact Hs.
    + assert (Hs : Gd {| lb := None; nb := (if numeq (nb s) badn then None else nb s); cb := cb s; bad := bad s |}).
      { split; [|exact He]. intros n Hn. cbn in *. destruct (H n Hn) as (A & B & C). specialize (Hnb1 n Hn). auto. }
      step; [eapply pres_ignore, G_rm_art|].
      step; [eapply pres_attempt, H_wpj; exact Hs|]. apply pres_ret. exact Hs.
  - assert (Hs : Gd {| lb := None; nb := (if numeq (nb s) badn then None else nb s); cb := cb s; bad := bad s |}).
    { split; [|exact He]. intros n Hn. cbn in *. destruct (H n Hn) as (A & B & C). specialize (Hnb1 n Hn). auto. }
    step; [eapply pres_attempt, H_wpj; exact Hs|]. apply pres_ret. exact Hs.
Qed.

Lemma G_next_boot key s : Gd s -> P (fun r => Gd (fst r)) (next_bootM sha sigok key s).
Proof.
  intros H. unfold next_bootM. destruct (nb s) as [m|]; [|apply pres_ret; exact H].
  step; [apply G_validate|]. destruct a; [apply pres_ret; exact H|].
  step; [apply G_fall_back; exact H|]. apply pres_ret. exact H1.
Qed.

Lemma incl_add_bad n l : incl l (add_bad n l).
Proof. intros k Hk. apply add_bad_In. auto. Qed.

Lemma G_boot_failure key s n : Gd s -> P GI (boot_failureM sha sigok key s n).
Proof.
  intros [H He]. unfold boot_failureM.
  set (s0 := {| lb := lb s; nb := nb s; cb := None; bad := add_bad n (bad s) |}).
  assert (He0 : Extra (bad s0)) by (apply (Extra_mono (bad s)); [apply incl_add_bad|exact He]).
  unfold fall_backM. step; [eapply pres_ignore, G_rm_art|].
  assert (Hk : forall k, In k (bad s0) -> k = n \/ In k (bad s)) by (intros k Hk; apply add_bad_In in Hk; exact Hk).
  assert (Hnb1 : forall k, In k (bad s0) -> numeq (if numeq (nb s0) n then None else nb s0) k = false).
  { intros k Hk0. destruct (Hk k Hk0) as [->|Hin].
    - cbn. destruct (numeq (nb s) n) eqn:E; auto.
    - destruct (H k Hin) as [A _]. cbn. destruct (numeq (nb s) n); auto. }
  destruct (lb s0) as [l|] eqn:El.
  - step. { destruct (negb (N.eqb (m_num l) n)); [apply G_validate|rt]. }
    destruct (negb (N.eqb (m_num l) n) && a0) eqn:E.
    + assert (Hs : Gd {| lb := Some l; nb := match (if numeq (nb s0) n then None else nb s0) with None => Some l | Some x => Some x end; cb := cb s0; bad := bad s0 |}).
      { split; [|exact He0]. intros k Hk0. cbn [lb nb cb bad] in *. specialize (Hnb1 k Hk0).
        assert (Hl : numeq (Some l) k = false).
        { destruct (Hk k Hk0) as [->|Hin].
          - apply andb_prop in E. destruct E as [E _]. apply negb_true_iff in E. exact E.
          - destruct (H k Hin) as (_ & B & _). cbn in El. rewrite El in B. exact B. }
        destruct (if numeq (nb s0) n then None else nb s0); cbn in *; auto. }
      step; [eapply pres_attempt, H_wpj; exact Hs|]. apply pres_ret. exact Hs.
    + assert (Hs : Gd {| lb := None; nb := (if numeq (nb s0) n then None else nb s0); cb := cb s0; bad := bad s0 |}).
      { split; [|exact He0]. intros k Hk0. cbn [lb nb cb bad] in *. specialize (Hnb1 k Hk0). auto. }
      step; [eapply pres_ignore, G_rm_art|].
      step; [eapply pres_attempt, H_wpj; exact Hs|]. apply pres_ret. exact Hs.
  - assert (Hs : Gd {| lb := None; nb := (if numeq (nb s0) n then None else nb s0); cb := cb s0; bad := bad s0 |}).
    { split; [|exact He0]. intros k Hk0. cbn [lb nb cb bad] in *. specialize (Hnb1 k Hk0). auto. }
    step; [eapply pres_attempt, H_wpj; exact Hs|]. apply pres_ret. exact Hs.
Qed.

Lemma G_add_patch s n b h sg : ~ In n (bad s) -> Gd s -> P Gd (add_patchM s n b h sg).
Proof.
  intros Hn [H He]. unfold add_patchM. step; [apply pres_get|].
  step. { destruct (arts a n); [rt|apply H_set; apply I_arts; exact H0]. }
  step; [apply H_set; apply I_arts; exact H0|].
  step.
  { destruct (nb s) as [x|]; [destruct (lb s) as [l|]|]; try rt.
    match goal with |- context [if ?c then _ else _] => destruct c end; [eapply pres_ignore, G_rm_art|rt]. }
  assert (Hs : Gd {| lb := lb s; nb := Some {| m_num := n; m_size := blen b; m_hash := h; m_sig := sg |}; cb := cb s; bad := bad s |}).
  { split; [exact (add_patch_Iban empty_disk s n b h sg Hn H)|exact He]. }
  step; [apply H_wpj; exact Hs|]. apply pres_ret. exact Hs.
Qed.

Lemma G_cs_next : P (fun _ => True) (cs_nextM sha sigok c).
Proof. unfold cs_nextM. step; [apply H_load|]. step; [apply G_next_boot; exact (proj1 H)|]. rt. Qed.

Lemma G_cs_current : P (fun _ => True) (cs_currentM c).
Proof. unfold cs_currentM. step; [apply H_load|]. rt. Qed.

Lemma G_cs_start : P (fun _ => True) (cs_startM sha sigok c).
Proof.
  unfold cs_startM. step; [apply H_load|]. step; [apply G_next_boot; exact (proj1 H)|].
  destruct (snd a0); [|rt].
  apply H_wpj. destruct H0 as [Hib He]. split; [|exact He].
  intros k Hk. cbn in *. destruct (Hib k Hk) as (A & B & C). auto.
Qed.

Lemma G_cs_success : P (fun _ => True) (cs_successM c).
Proof.
  unfold cs_successM. step; [apply H_load|].
  destruct (cb (snd a)) as [b|] eqn:E; [|rt].
  step; [apply H_sweep|]. step.
  { apply H_wpj. destruct H as [[Hib He] _]. split; [|exact He].
    intros k Hk. cbn in *. destruct (Hib k Hk) as (A & B & C). rewrite E in C. auto. }
  rt.
Qed.

Lemma G_cs_failure : P (fun _ => True) (cs_failureM sha sigok c).
Proof.
  unfold cs_failureM. step; [apply H_load|].
  destruct (cb (snd a)) as [b|]; [|apply pres_fail].
  step; [eapply pres_ignore, G_boot_failure; exact (proj1 H)|]. apply H_wsj. apply (proj2 H).
Qed.

Lemma G_cs_init_recover : P (fun _ => True) (cs_init_recoverM sha sigok c).
Proof.
  unfold cs_init_recoverM. step; [apply H_load|].
  destruct (cb (snd a)) as [b|]; [|rt].
  step; [apply G_boot_failure; exact (proj1 H)|].
  destruct (snd a0); [apply H_wsj; apply (proj2 H)|apply pres_fail].
Qed.

Lemma G_rollback_loop key l : forall s, Gd s -> P Gd (rollback_loopM sha sigok key s l).
Proof.
  induction l as [|n l IH]; intros s H; cbn [rollback_loopM]; [apply pres_ret; exact H|].
  step; [apply G_fall_back; exact H|]. destruct (snd a); [apply IH; exact H0|apply pres_fail].
Qed.

Lemma G_cs_rollback l : P (fun _ => True) (cs_rollbackM sha sigok c l).
Proof. unfold cs_rollbackM. step; [apply H_load|]. step; [apply G_rollback_loop; exact (proj1 H)|]. rt. Qed.

Lemma G_cs_is_bad n : P (fun _ => True) (cs_is_badM c n).
Proof. unfold cs_is_badM. step; [apply H_load|]. rt. Qed.
Lemma G_cs_copy : P (fun _ => True) (cs_copy_eventsM c).
Proof. unfold cs_copy_eventsM. step; [apply H_load|]. rt. Qed.
Lemma G_cs_clear : P (fun _ => True) (cs_clear_eventsM c).
Proof. unfold cs_clear_eventsM. step; [apply H_load|]. eapply pres_ignore, H_wsj. apply (proj2 H). Qed.

Lemma G_cs_install p b : P (fun _ => True) (cs_installM c p b).
Proof.
  unfold cs_installM. step; [apply H_load|].
  destruct (inb (p_num p) (bad (snd a))) eqn:E; [rt|].
  step; [|rt].
  apply G_add_patch; [|exact (proj1 H)]. intros Hin. apply inb_In in Hin. congruence.
Qed.

Lemma G_should_install n : P (fun _ => True) (should_installM sha sigok c n).
Proof.
  unfold should_installM. step; [apply G_cs_is_bad|]. destruct a; [rt|].
  step; [apply G_cs_next|]. rt.
Qed.

Lemma G_do_check r : P (fun _ => True) (do_checkM sha sigok c r).
Proof.
  unfold do_checkM. destruct r as [rs|]; [|apply pres_fail].
  step. { destruct (r_rb rs); [apply G_cs_rollback|rt]. }
  destruct (r_patch rs); [|rt].
  step; [apply G_should_install|]. rt.
Qed.

(* the download directory is not part of the disk: its steps preserve everything *)
Lemma G_dstep : P (fun _ => True) dstep.
Proof. unfold dstep. apply pres_mut; auto. Qed.

Lemma G_download bdl : P (fun _ => True) (downloadM zdec base bdl).
Proof.
  unfold downloadM. step; [apply G_dstep|]. step; [apply G_dstep|]. step; [apply G_dstep|]. step; [apply G_dstep|].
  destruct (inflate zdec base bdl) as [out|]; [|apply pres_fail].
  step. { destruct (8192 <=? blen out); [apply G_dstep|rt]. }
  step; [apply (pres_rd IS_gen)|]. rt.
Qed.

Lemma G_do_update r dl : P (fun _ => True) (do_updateM sha sigok zdec base c r dl).
Proof.
  unfold do_updateM. step; [apply G_cs_copy|]. step; [apply G_cs_clear|].
  destruct r as [rs|]; [|apply pres_fail].
  step. { destruct (r_rb rs); [apply G_cs_rollback|rt]. }
  destruct (negb (r_avail rs)); [rt|].
  destruct (r_patch rs) as [p|]; [|apply pres_fail].
  step; [apply G_should_install|].
  destruct a2; try rt.
  destruct dl as [bdl|]; [|apply pres_fail].
  eapply pres_bind; [apply G_download|intros fileb _].
  destruct (hash_ok sha fileb (p_hash p)); [|apply pres_fail].
  eapply pres_weaken; [|apply G_cs_install]. auto.
Qed.

Theorem G_call o : P (fun _ => True) (callM sha sigok zdec base c o).
Proof.
  unfold callM. destruct o; try rt.
  - step; [apply G_cs_next|]. rt.
  - step; [apply G_cs_next|]. rt.
  - step; [apply G_cs_current|]. rt.
  - step; [eapply pres_ignore, G_cs_start|]. rt.
  - step; [eapply pres_ignore, G_cs_success|]. rt.
  - step; [eapply pres_ignore, G_cs_failure|]. rt.
  - step; [eapply pres_attempt, G_do_check|]. rt.
  - step; [eapply pres_attempt, G_do_update|]. rt.
Qed.

Theorem G_init : P (fun _ => True) (initM sha sigok c).
Proof. unfold initM. step; [eapply pres_attempt, G_cs_init_recover|]. rt. Qed.

End Gen.

(* ================= A. every plan (death or one failing call) ================= *)
Definition PJI (d : disk) : Prop := match pj d with JOk s => Iban s | _ => True end.

Lemma PJI_load d : PJI d -> Iban (load_p d).
Proof. unfold PJI, load_p. destruct (pj d); auto using Iban_empty. Qed.

Section A.
Variable sha : bytes -> bytes.
Variable sigok : string -> string -> string -> bool.
Variable zdec : bytes -> bytes.
Variable base : bytes.
Notation P := (pres true PJI PJI).
Let IS : forall d, PJI d -> PJI d := fun d H => H.
Let ExtraA (l : list N) : Prop := True.
Let RsA (s : sstate) : Prop := True.
Ltac step := eapply pres_bind; [|intros].
Ltac rt := apply (pres_ret (fun _ => True)); exact Logic.I.

Lemma A_set X : PJI X -> P (fun _ => True) (atomic (fun _ => X)).
Proof. intros H. apply pres_mut; intros; auto. Qed.
Lemma A_arts d a : PJI d -> PJI (set_arts d a).
Proof. auto. Qed.

Lemma A_write_pj s : Gd ExtraA s -> P (fun _ => True) (write_pj s).
Proof.
  intros [H _]. unfold write_pj. step.
  - apply pres_mut; intros; cbn; auto; try exact Logic.I.
  - apply (pres_mut_swallow IS); intros; cbn; auto; try exact Logic.I.
Qed.

Lemma A_write_sj s : RsA s -> P (fun _ => True) (write_sj s).
Proof.
  intros _. unfold write_sj. step.
  - apply pres_mut; intros; auto.
  - apply (pres_mut_swallow IS); intros; auto.
Qed.

Lemma A_sweep s n : P (fun _ => True) (sweepM s n).
Proof. unfold sweepM. eapply pres_ignore. apply pres_mut; intros; auto. Qed.

Lemma A_create_new r : P (fun _ => True) (create_newM r).
Proof.
  unfold create_newM. step; [apply (pres_rd IS)|]. step.
  { eapply pres_attempt. step; [apply A_write_pj; split; [apply Iban_empty|exact Logic.I]|].
    apply pres_mut; intros; auto. }
  destruct a0; [eapply pres_ignore, A_write_sj; exact Logic.I|rt].
Qed.

Lemma A_load c : P (GLd ExtraA RsA) (loadM c).
Proof.
  assert (Ge : GLd ExtraA RsA ({| rel := c_rel c; evq := [] |}, pempty)).
  { split; [split; [apply Iban_empty|exact Logic.I]|intros; exact Logic.I]. }
  unfold loadM. step; [apply (pres_rd IS)|]. step; [apply pres_get|].
  destruct (if a then sj a0 else JGarbage) as [| |s].
  - step; [apply A_create_new|]. apply pres_ret. exact Ge.
  - step; [apply A_create_new|]. apply pres_ret. exact Ge.
  - step; [apply (pres_rd IS)|]. destruct (String.eqb (rel s) (c_rel c)).
    + apply pres_ret. destruct a1.
      * split; [split; [apply PJI_load; exact H0|exact Logic.I]|intros; exact Logic.I].
      * exact Ge.
    + step; [apply A_create_new|]. apply pres_ret. exact Ge.
Qed.

(* whatever happens inside any call — death at any step or one failing step — patches_state.json,
   whenever it parses afterwards, satisfies I-ban *)
Theorem any_fault_keeps_pji c o :
  P (fun _ => True) (callM sha sigok zdec base c o) /\ P (fun _ => True) (initM sha sigok c).
Proof.
  assert (Hm : forall l l' : list N, incl l l' -> ExtraA l -> ExtraA l') by (intros; exact Logic.I).
  split.
  - apply (G_call sha sigok zdec base true PJI PJI ExtraA RsA Hm IS A_write_pj A_write_sj A_set A_arts A_sweep c (A_load c)).
  - apply (G_init sha sigok true PJI PJI ExtraA RsA Hm IS A_write_pj A_write_sj A_set A_arts c (A_load c)).
Qed.

End A.

(* ================= B. process death inside a call of the running release ================= *)
Section B.
Variable sha : bytes -> bytes.
Variable sigok : string -> string -> string -> bool.
Variable zdec : bytes -> bytes.
Variable base : bytes.
Variable r : string.
Variable bad0 : list N.

Definition ExtraB (l : list N) : Prop := incl bad0 l.
Definition RsB (s : sstate) : Prop := rel s = r.
Definition GoodS (s : pstate) : Prop := Gd ExtraB s.
(* alive: the disk belongs to release r and the loaded patch state is good *)
Definition IB (d : disk) : Prop := stable r d /\ GoodS (load_p d).
(* dead: if the next launch of r keeps the state at all, a parsable patch state is good *)
Definition SB (d : disk) : Prop :=
  stable r d -> match pj d with JOk s => GoodS s | _ => True end.

Lemma IB_SB d : IB d -> SB d.
Proof. intros [_ G] _. unfold load_p in G. destruct (pj d); auto. Qed.

Notation P := (pres false IB SB).
Ltac step := eapply pres_bind; [|intros].
Ltac rt := apply (pres_ret (fun _ => True)); exact Logic.I.

Lemma B_arts d a : IB d -> IB (set_arts d a).
Proof. intros [[x Hx] G]. split; [exists x; exact Hx|exact G]. Qed.

Lemma B_set X : IB X -> P (fun _ => True) (atomic (fun _ => X)).
Proof.
  intros H. apply pres_mut.
  - intros; exact H.
  - intros sub d Hd. apply IB_SB. exact Hd.
  - discriminate.
Qed.

Lemma B_sweep s n : P (fun _ => True) (sweepM s n).
Proof.
  unfold sweepM. eapply pres_ignore. apply pres_mut.
  - intros d [Sd G]. split; [destruct Sd as [x H]; exists x; exact H|exact G].
  - intros sub d Hd. apply IB_SB. destruct Hd as [Sd G]. split; [destruct Sd as [x H]; exists x; exact H|exact G].
  - discriminate.
Qed.

(* the two state-file writes, as units: alive after the write, or dead leaving old / torn / new *)
Lemma B_write_pj s : GoodS s -> P (fun _ => True) (write_pj s).
Proof.
  intros Gs pl c d Hp [Sd G]. unfold write_pj, bind, atomic, mut, mut_swallow, out_of, disk_of.
  destruct pl as [|k sub|k sub]; [| |discriminate Hp]; cbn.
  - split; [|exact Logic.I]. split; [destruct Sd as [x H]; exists x; exact H|exact Gs].
  - destruct (Nat.eqb c k); cbn.
    + apply IB_SB. split; auto.
    + destruct (Nat.eqb (Datatypes.S c) k); cbn.
      * destruct (N.eqb (sub 0) 0); unfold SB; intros _; cbn; exact Logic.I.
      * split; [|exact Logic.I]. split; [destruct Sd as [x H]; exists x; exact H|exact Gs].
Qed.

Lemma B_write_sj s : RsB s -> P (fun _ => True) (write_sj s).
Proof.
  intros Rs pl c d Hp [Sd G]. unfold write_sj, bind, atomic, mut, mut_swallow, out_of, disk_of.
  assert (Hnew : IB (set_sj (set_sj d JGarbage) (JOk s))).
  { split; [exists s; split; [reflexivity|exact Rs]|exact G]. }
  assert (Hg : SB (set_sj d JGarbage)) by (intros [x [E _]]; discriminate E).
  destruct pl as [|k sub|k sub]; [| |discriminate Hp]; cbn.
  - split; [exact Hnew|exact Logic.I].
  - destruct (Nat.eqb c k); cbn.
    + apply IB_SB. split; auto.
    + destruct (Nat.eqb (Datatypes.S c) k); cbn.
      * destruct (N.eqb (sub 0) 0); exact Hg.
      * split; [exact Hnew|exact Logic.I].
Qed.

Variable c : cfg.
Hypothesis c_is_r : c_rel c = r.

Lemma B_load : P (GLd ExtraB RsB) (loadM c).
Proof.
  unfold loadM.
  eapply pres_bind; [apply (pres_rd_nofail IB_SB eq_refl)|intros ok1 Hok1; cbv beta in Hok1; subst ok1].
  eapply pres_bind; [apply pres_get|intros d Hd]. destruct Hd as [[s [E1 E2]] G]. rewrite E1.
  eapply pres_bind; [apply (pres_rd_nofail IB_SB eq_refl)|intros ok2 Hok2; cbv beta in Hok2; subst ok2].
  rewrite c_is_r, E2, String.eqb_refl. apply pres_ret.
  split; [exact G|]. intros q. exact E2.
Qed.

Theorem crash_keeps_good o :
  P (fun _ => True) (callM sha sigok zdec base c o) /\ P (fun _ => True) (initM sha sigok c).
Proof.
  assert (Hm : forall l l' : list N, incl l l' -> ExtraB l -> ExtraB l').
  { intros l l' H1 H2 k Hk. apply H1, H2, Hk. }
  split.
  - apply (G_call sha sigok zdec base false IB SB ExtraB RsB Hm IB_SB B_write_pj B_write_sj B_set B_arts B_sweep c B_load).
  - apply (G_init sha sigok false IB SB ExtraB RsB Hm IB_SB B_write_pj B_write_sj B_set B_arts c B_load).
Qed.

End B.

(* ================= what the next launch makes of such a disk ================= *)
Section Recovery.
Variable sha : bytes -> bytes.
Variable sigok : string -> string -> string -> bool.
Variable zdec : bytes -> bytes.
Variable base : bytes.

Lemma not_stable_norm c d : ~ stable (c_rel c) d -> norm c d = fresh_disk (c_rel c).
Proof.
  intros H. unfold norm. destruct (sj d) as [| |s] eqn:E; auto.
  destruct (String.eqb_spec (rel s) (c_rel c)); auto. exfalso. apply H. exists s. auto.
Qed.

Lemma fresh_next c : snd (cs_next sha sigok c (fresh_disk (c_rel c))) = None.
Proof. destruct (fresh_queries sha sigok c) as [_ H]. rewrite H. reflexivity. Qed.

Lemma cs_init_recover_fresh c d :
  norm c d = fresh_disk (c_rel c) -> cs_init_recover sha sigok c d = fresh_disk (c_rel c).
Proof. intros H. unfold cs_init_recover. rewrite H. reflexivity. Qed.

Lemma pempty_next c d : stable (c_rel c) d -> load_p d = pempty ->
  cs_init_recover sha sigok c d = d /\ snd (cs_next sha sigok c d) = None.
Proof.
  intros S H. unfold cs_init_recover, cs_next. rewrite (norm_id c d S), H. cbn. auto.
Qed.

(* the next launch: init (with crash detection) then the query *)
Definition next_launch (c : cfg) (d : disk) : disk * option N :=
  cs_next sha sigok c (cs_init_recover sha sigok c d).

(* from any disk satisfying the "dead" condition SB: no patch, or an intact one that was not
   banned before and whose launch was not in progress *)
Theorem next_launch_safe c bad0 d :
  SB (c_rel c) bad0 d ->
  match snd (next_launch c d) with
  | None => True
  | Some n =>
      intact sha sigok (c_key c) (fst (next_launch c d)) n /\ ~ In n bad0 /\
      (forall m, cb (load_p (norm c d)) = Some m -> m_num m <> n)
  end.
Proof.
  intros HS. unfold next_launch.
  destruct (cs_next sha sigok c (cs_init_recover sha sigok c d)) as [d2 rr] eqn:E. cbn [fst snd].
  destruct rr as [n|]; [|exact Logic.I].
  (* not the running release: everything is reset, nothing is selected *)
  assert (St : stable (c_rel c) d).
  { destruct (norm_cases c d) as [Hn|Hn].
    - rewrite <- Hn. apply norm_stable.
    - exfalso. rewrite (cs_init_recover_fresh c d Hn) in E.
      pose proof (fresh_next c) as F. rewrite E in F. discriminate. }
  specialize (HS St).
  assert (Hib : IbanD d).
  { unfold IbanD, load_p. destruct (pj d) as [| |s]; try apply Iban_empty. exact (proj1 HS). }
  assert (Hinc : incl bad0 (bad (load_p d)) \/ load_p d = pempty).
  { unfold load_p. destruct (pj d) as [| |s]; auto. left. exact (proj2 HS). }
  destruct Hinc as [Hinc|Hpe].
  2:{ exfalso. destruct (pempty_next c d St Hpe) as [E1 E2]. rewrite E1 in E. rewrite E in E2. discriminate. }
  pose proof (cs_init_recover_IbanD sha sigok c d Hib) as I1.
  pose proof (cs_init_recover_BM sha sigok c d St) as [S1 M1].
  pose proof (cs_next_IbanD sha sigok c _ I1) as I2.
  pose proof (cs_next_BM sha sigok c _ S1) as [S2 M2].
  rewrite E in I2, M2. cbn in I2, M2.
  pose proof (cs_next_intact sha sigok c _ d2 n E) as Hint.
  pose proof (intact_not_banned sha sigok _ _ _ I2 Hint) as Hnb.
  split; [exact Hint|]. split.
  - intros Hin. apply Hnb. apply M2, M1, Hinc, Hin.
  - intros m Hm Heq. apply Hnb. apply M2. rewrite <- Heq.
    apply (crash_detection_bans sha sigok c d m Hm).
Qed.

(* C04, first half: a process death at ANY system-call prefix of ANY call (or of the restart's own
   init) of the running release, from any good state *)
Theorem crash_safe c d0 o k sub :
  stable (c_rel c) d0 -> IbanD d0 ->
  let d' := disk_of (callM sha sigok zdec base c o (CrashAt k sub) 0%nat d0) in
  let d'' := disk_of (initM sha sigok c (CrashAt k sub) 0%nat d0) in
  SB (c_rel c) (bad (load_p d0)) d' /\ SB (c_rel c) (bad (load_p d0)) d''.
Proof.
  intros St Ib.
  assert (HI : IB (c_rel c) (bad (load_p d0)) d0).
  { split; [exact St|]. split; [exact Ib|apply incl_refl]. }
  destruct (crash_keeps_good sha sigok zdec base (c_rel c) (bad (load_p d0)) c eq_refl o) as [Hc Hi].
  split.
  - specialize (Hc (CrashAt k sub) 0%nat d0 Logic.I HI).
    destruct (out_of _); [apply IB_SB; exact (proj1 Hc)|apply IB_SB; exact Hc|exact Hc].
  - specialize (Hi (CrashAt k sub) 0%nat d0 Logic.I HI).
    destruct (out_of _); [apply IB_SB; exact (proj1 Hi)|apply IB_SB; exact Hi|exact Hi].
Qed.

(* C04, second half: one failing system call (or a death) anywhere in any call: afterwards, in this
   process and after a restart, whatever is selected is intact and not on the ban list *)
Theorem fault_safe c d0 o pl :
  PJI d0 ->
  let d' := disk_of (callM sha sigok zdec base c o pl 0%nat d0) in
  IbanD d' /\
  (forall d2 n, cs_next sha sigok c d' = (d2, Some n) ->
                intact sha sigok (c_key c) d2 n /\ ~ In n (bad (load_p d2))) /\
  (forall d2 n, next_launch c d' = (d2, Some n) ->
                intact sha sigok (c_key c) d2 n /\ ~ In n (bad (load_p d2))).
Proof.
  intros H0.
  destruct (any_fault_keeps_pji sha sigok zdec base c o) as [Hc _].
  assert (Hp : okpl true pl) by (destruct pl; cbn; auto).
  specialize (Hc pl 0%nat d0 Hp H0).
  assert (Hd : PJI (disk_of (callM sha sigok zdec base c o pl 0%nat d0))).
  { destruct (out_of _); [exact (proj1 Hc)|exact Hc|exact Hc]. }
  cbv zeta. set (d' := disk_of _) in *.
  assert (Ib : IbanD d') by (apply PJI_load; exact Hd).
  split; [exact Ib|]. split.
  - intros d2 n E. pose proof (cs_next_IbanD sha sigok c d' Ib) as I2. rewrite E in I2.
    pose proof (cs_next_intact sha sigok c d' d2 n E) as Hi. split; auto.
    eapply intact_not_banned; eauto.
  - intros d2 n E. unfold next_launch in E.
    pose proof (cs_init_recover_IbanD sha sigok c d' Ib) as I1.
    pose proof (cs_next_IbanD sha sigok c _ I1) as I2. rewrite E in I2.
    pose proof (cs_next_intact sha sigok c _ d2 n E) as Hi. split; auto.
    eapply intact_not_banned; eauto.
Qed.

(* ---------- first launch of another release (or unreadable state.json) ---------- *)
Lemma create_new_shape rr pl d c0 :
  (c0 <= 2)%nat ->
  let d' := disk_of (create_newM rr pl c0 d) in
  sj d' = sj d \/ sj d' = JGarbage \/ load_p d' = pempty.
Proof.
  intros Hc. destruct d as [sjd pjd a j].
  destruct c0 as [|[|[|c0]]]; [| | |exfalso; lia];
  (destruct pl as [|k sub|k sub];
   [cbv; auto
   |do 9 (destruct k as [|k]; [cbv; repeat match goal with |- context [match sub ?z with _ => _ end] => destruct (sub z) end; solve [auto 6 | destruct pjd; auto 6]|]); cbv; auto
   |do 9 (destruct k as [|k]; [cbv; repeat match goal with |- context [match sub ?z with _ => _ end] => destruct (sub z) end; solve [auto 6 | destruct pjd; auto 6]|]); cbv; auto]).
Qed.

Lemma bind_unf {A B} (m : M A) (f : A -> M B) pl c0 d :
  bind m f pl c0 d = match m pl c0 d with
                     | (Ret a, c', d') => f a pl c' d'
                     | (Err, c', d') => (Err, c', d')
                     | (Died, c', d') => (Died, c', d')
                     end.
Proof. reflexivity. Qed.

Lemma rd_cases pl c0 d : rd pl c0 d = (Died, c0, d) \/ exists b, rd pl c0 d = (Ret b, S c0, d).
Proof.
  unfold rd. destruct pl as [|k s|k s]; [right; exists true; reflexivity| |];
    destruct (Nat.eqb c0 k); eauto.
Qed.

(* loading on a disk of another release: the process dies at one of the (at most two) reads, having changed
   nothing, or create_new runs and the fresh empty state is returned *)
Lemma load_other_release c pl d :
  ~ stable (c_rel c) d ->
  (exists c', loadM c pl 0%nat d = (Died, c', d)) \/
  exists c0, (c0 <= 2)%nat /\
    loadM c pl 0%nat d =
    match create_newM (c_rel c) pl c0 d with
    | (Ret _, c', d') => (Ret ({| rel := c_rel c; evq := [] |}, pempty), c', d')
    | (Err, c', d') => (Err, c', d')
    | (Died, c', d') => (Died, c', d')
    end.
Proof.
  intros H. unfold loadM. rewrite bind_unf.
  destruct (rd_cases pl 0%nat d) as [E0|[b0 E0]]; rewrite E0; [left; eauto|].
  rewrite bind_unf. change (get pl 1%nat d) with (@Ret disk d, 1%nat, d). cbv iota beta.
  assert (Hcn : forall c0, (c0 <= 2)%nat ->
            exists c1, (c1 <= 2)%nat /\
            (create_newM (c_rel c);;; ret ({| rel := c_rel c; evq := [] |}, pempty)) pl c0 d =
            match create_newM (c_rel c) pl c1 d with
            | (Ret _, c', d') => (Ret ({| rel := c_rel c; evq := [] |}, pempty), c', d')
            | (Err, c', d') => (Err, c', d')
            | (Died, c', d') => (Died, c', d')
            end).
  { intros c0 Hc0. exists c0. split; [exact Hc0|]. rewrite bind_unf.
    destruct (create_newM (c_rel c) pl c0 d) as [[oc k] dd]. destruct oc; reflexivity. }
  destruct (if b0 then sj d else JGarbage) as [| |s] eqn:Es.
  - right. apply (Hcn 1%nat). lia.
  - right. apply (Hcn 1%nat). lia.
  - destruct b0; [|discriminate].
    assert (Er : String.eqb (rel s) (c_rel c) = false).
    { destruct (String.eqb_spec (rel s) (c_rel c)) as [Er|Er]; [|reflexivity]. exfalso. apply H. exists s. auto. }
    rewrite bind_unf.
    destruct (rd_cases pl 1%nat d) as [E1|[b1 E1]]; rewrite E1; [left; eauto|].
    rewrite Er. right. apply (Hcn 2%nat). lia.
Qed.

Lemma init_is_create_new c pl d :
  ~ stable (c_rel c) d ->
  disk_of (initM sha sigok c pl 0%nat d) = d \/
  exists c0, (c0 <= 2)%nat /\ disk_of (initM sha sigok c pl 0%nat d) = disk_of (create_newM (c_rel c) pl c0 d).
Proof.
  intros H. unfold initM, cs_init_recoverM, attempt. rewrite bind_unf. rewrite bind_unf.
  destruct (load_other_release c pl d H) as [[c' E]|(c0 & Hc0 & E)]; rewrite E.
  - left. reflexivity.
  - right. exists c0. split; [exact Hc0|].
    destruct (create_newM (c_rel c) pl c0 d) as [[oc k] dd]. destruct oc; reflexivity.
Qed.

Lemma other_release_nothing c d :
  ~ stable (c_rel c) d -> snd (cs_next sha sigok c d) = None /\ snd (next_launch c d) = None.
Proof.
  intros H. pose proof (not_stable_norm c d H) as Hn. split.
  - unfold cs_next. rewrite Hn.
    pose proof (fresh_next c) as F. unfold cs_next in F.
    rewrite norm_id in F by (eexists; split; reflexivity). exact F.
  - unfold next_launch. rewrite (cs_init_recover_fresh c d Hn). apply fresh_next.
Qed.

(* whatever happens during the first launch of a new release — death at any step, any single
   failing step — neither this process nor the next launch hands out a patch *)
Theorem release_change_safe c d pl :
  ~ stable (c_rel c) d ->
  let d' := disk_of (initM sha sigok c pl 0%nat d) in
  snd (cs_next sha sigok c d') = None /\ snd (next_launch c d') = None.
Proof.
  intros H. cbv zeta.
  destruct (init_is_create_new c pl d H) as [E0|(c0 & Hc0 & E0)]; rewrite E0.
  { apply other_release_nothing. exact H. }
  pose proof (create_new_shape (c_rel c) pl d c0 Hc0) as Sh. cbv zeta in Sh.
  set (d' := disk_of (create_newM (c_rel c) pl c0 d)) in *.
  destruct (norm_cases c d') as [Hn|Hn].
  - assert (St : stable (c_rel c) d') by (rewrite <- Hn; apply norm_stable).
    destruct Sh as [E|[E|E]].
    + exfalso. apply H. destruct St as [s [E1 E2]]. exists s. rewrite <- E. auto.
    + exfalso. destruct St as [s [E1 _]]. congruence.
    + destruct (pempty_next c d' St E) as [E1 E2]. unfold next_launch. rewrite E1. auto.
  - split.
    + unfold cs_next. rewrite Hn.
      pose proof (fresh_next c) as F. unfold cs_next in F.
      rewrite norm_id in F by (eexists; split; reflexivity). exact F.
    + unfold next_launch. rewrite (cs_init_recover_fresh c d' Hn). apply fresh_next.
Qed.

End Recovery.
