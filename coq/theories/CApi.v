(* CApi.v — the C wrappers of c_api/mod.rs as a layer over Model.step: what each exported function does with
   the raw pointers it is handed before (and instead of) calling into the updater.  A C string argument is
   NULL, a NUL-terminated byte string that is not UTF-8, or a proper string; `to_rust` rejects the first two,
   `to_rust_option` maps NULL to "no channel".  Every wrapper turns a conversion error into its documented
   error default (log_on_error) without touching the updater.  Definitions + the facts worth stating. *)
From UV Require Import Base Codec Model.

Inductive cstr := CNull | CBadUtf8 | CStr (s : string).

Definition to_rust (c : cstr) : option string :=
  match c with CStr s => Some s | _ => None end.
(* Ok(None) for NULL, Ok(Some s) for a proper string, Err for ill-formed UTF-8 *)
Definition to_rust_option (c : cstr) : option (option string) :=
  match c with CNull => Some None | CStr s => Some (Some s) | CBadUtf8 => None end.

(* struct AppParameters as the wrapper sees it; [None] = the struct pointer itself is NULL.
   original_libapp_paths with size 0 / a NULL entry make `paths_ok` false exactly as libapp_path's
   "no paths" error does in updater::init. *)
Record cparams := { cp_rel : cstr; cp_storage : cstr; cp_cache : cstr; cp_paths : list cstr }.

Inductive ccall :=
| CInit (p : option cparams) (yaml : cstr) (y : yaml_in)       (* y: what serde_yaml makes of a proper yaml string *)
| CNextNum | CNextPath | CCurNum | CAuto | CStart | CSuccess | CFailure
| CCheck (ch : cstr) (r : option resp)                          (* shorebird_check_for_downloadable_update *)
| CCheck0 (r : option resp)                                     (* shorebird_check_for_update *)
| CUpdateWithResult (ch : cstr) (r : option resp) (dl : option bytes)
| CUpdate0 (r : option resp) (dl : option bytes)                (* shorebird_update / shorebird_start_update_thread *)
| CFreeString (null : bool) | CFreeUpdateResult (null : bool).

(* what comes back over the ABI *)
Inductive cout :=
| KBool (b : bool) | KNum (n : N) | KPath (o : option N) | KUnit
| KResult (status : Z) (has_message : bool).

Section Oracles.
Variable sha : bytes -> bytes.
Variable sigok : string -> string -> string -> bool.
Variable zdec : bytes -> bytes.
Variable base : bytes.

Notation step := (step sha sigok zdec base).

Definition all_strings (l : list cstr) : option (list string) :=
  fold_right (fun c acc => match to_rust c, acc with Some s, Some t => Some (s :: t) | _, _ => None end) (Some []) l.

Definition out_of (o : out) : cout :=
  match o with
  | RBool b => KBool b | RNum n => KNum n | RPath p => KPath p | RUnit => KUnit
  | RStatus z => KResult z true         (* to_update_result: every status carries a message *)
  end.

Definition cstep (w : world) (c : ccall) : world * cout * list netobs :=
  let via o := let '(w', r, l) := step w o in (w', out_of r, l) in
  match c with
  | CInit p yaml y =>
      match p with
      | None => (w, KBool false, [])                                   (* "Null parameters passed" *)
      | Some ps =>
          match to_rust (cp_storage ps), to_rust (cp_cache ps), to_rust (cp_rel ps),
                all_strings (cp_paths ps), to_rust yaml with
          | Some _, Some _, Some relv, Some paths, Some _ =>
              via (OInit relv y (match paths with [] => false | _ => true end))
          | _, _, _, _, _ => (w, KBool false, [])
          end
      end
  | CNextNum => via ONextNum | CNextPath => via ONextPath | CCurNum => via OCurNum | CAuto => via OAuto
  | CStart => via OStart | CSuccess => via OSuccess | CFailure => via OFailure
  | CCheck ch r =>
      match to_rust_option ch with
      | Some c' => via (OCheck c' r)
      | None => (w, KBool false, [])
      end
  | CCheck0 r => via (OCheck None r)
  | CUpdateWithResult ch r dl =>
      match to_rust_option ch with
      | Some c' => via (OUpdate c' r dl)
      | None => (w, KResult (-1) true, [])                             (* to_update_result(Err(utf8 error)) *)
      end
  | CUpdate0 r dl => let '(w', _, l) := step w (OUpdate None r dl) in (w', KUnit, l)
  | CFreeString _ | CFreeUpdateResult _ => (w, KUnit, [])              (* NULL is accepted and ignored *)
  end.

(* ---------- facts ---------- *)
Definition bad_arg (c : ccall) : Prop :=
  match c with
  | CInit None _ _ => True
  | CInit (Some ps) yaml _ =>
      to_rust (cp_storage ps) = None \/ to_rust (cp_cache ps) = None \/ to_rust (cp_rel ps) = None \/
      all_strings (cp_paths ps) = None \/ to_rust yaml = None
  | CCheck ch _ => ch = CBadUtf8
  | CUpdateWithResult ch _ _ => ch = CBadUtf8
  | _ => False
  end.

(* a call handed a NULL struct, a NULL required string or ill-formed UTF-8 answers its documented error
   default, performs no network action and changes nothing - on disk or in the configuration *)
Theorem bad_argument_inert w c :
  bad_arg c ->
  let '(w', r, l) := cstep w c in
  w' = w /\ l = [] /\
  r = match c with CInit _ _ _ => KBool false | CCheck _ _ => KBool false | _ => KResult (-1) true end.
Proof.
  destruct c as [[ps|] yaml y| | | | | | | |ch r|r|ch r dl|r dl|n|n]; cbn [bad_arg]; try contradiction.
  - intros H. cbn [cstep].
    destruct (to_rust (cp_storage ps)); [|cbn; auto].
    destruct (to_rust (cp_cache ps)); [|cbn; auto].
    destruct (to_rust (cp_rel ps)); [|cbn; auto].
    destruct (all_strings (cp_paths ps)); [|cbn; auto].
    destruct (to_rust yaml); [|cbn; auto].
    destruct H as [H|[H|[H|[H|H]]]]; discriminate.
  - intros _. cbn. auto.
  - intros ->. cbn. auto.
  - intros ->. cbn. auto.
Qed.

(* with proper arguments a wrapper is exactly the updater call: same world, same network actions, the
   result translated field for field (NULL channel = no channel) *)
Theorem good_arguments_are_the_call w ch r dl :
  cstep w (CUpdateWithResult (match ch with Some s => CStr s | None => CNull end) r dl) =
  (let '(w', o, l) := step w (OUpdate ch r dl) in (w', out_of o, l)) /\
  cstep w (CCheck (match ch with Some s => CStr s | None => CNull end) r) =
  (let '(w', o, l) := step w (OCheck ch r) in (w', out_of o, l)).
Proof. destruct ch; split; reflexivity. Qed.

(* the free functions accept NULL, and no wrapper but the two update entry points returns a result struct *)
Theorem free_null_is_noop w b : cstep w (CFreeString b) = (w, KUnit, []) /\ cstep w (CFreeUpdateResult b) = (w, KUnit, []).
Proof. split; reflexivity. Qed.

(* every status that reaches C through shorebird_update_with_result is one of the five documented codes and
   carries a message *)
Theorem update_result_codes w ch r dl :
  match snd (fst (cstep w (CUpdateWithResult ch r dl))) with
  | KResult z m => m = true /\ (z = (-1) \/ z = 0 \/ z = 1 \/ z = 2 \/ z = 3)%Z
  | _ => False
  end.
Proof.
  cbn [cstep]. destruct (to_rust_option ch) as [c'|]; [|cbn; auto].
  destruct (step w (OUpdate c' r dl)) as [[w' o] l] eqn:E. cbn [fst snd].
  unfold Model.step in E. destruct (w_cfg w) as [c|].
  - destruct (do_update sha sigok zdec base c (w_disk w) c' r dl) as [[d' u] l']. inversion E; subst.
    cbn. split; [reflexivity|]. destruct u; cbn; auto.
  - inversion E; subst. cbn. auto.
Qed.

End Oracles.
