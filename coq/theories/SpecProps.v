(* SpecProps.v — the properties, read off the abstract machine.  Everything here is about Spec.v alone (no disks, no
   records): invariants of the abstract lifecycle machine and the frame facts that C02 / C03 / C09 / C10 / C18 state.
   Through SpecCalls.step_refines they hold of the model's calls; being short, they double as a review of the spec. *)
From UV Require Import Base Spec.
Arguments N.eqb : simpl never.
Arguments N.ltb : simpl never.

Lemma oeqb_true o x : oeqb o x = true <-> o = Some x.
Proof.
  destruct o as [y|]; cbn; [|split; discriminate].
  rewrite N.eqb_eq. split; [intros ->; reflexivity|intros H; inversion H; reflexivity].
Qed.
Lemma oeqb_false o x : oeqb o x = false <-> o <> Some x.
Proof. rewrite <- oeqb_true. destruct (oeqb o x); split; congruence. Qed.

(* ---------- C02 on the abstract machine: a banned number is nowhere ---------- *)
Definition A_ban (a : ast) : Prop :=
  forall n, In n (a_ban a) -> a_sel a <> Some n /\ a_good a <> Some n /\ a_boot a <> Some n.

Lemma A_ban_fall_back a x : A_ban a -> A_ban (a_fall_back a x).
Proof.
  intros H n Hn. unfold a_fall_back in *.
  destruct (a_good a) as [g|] eqn:Eg.
  - destruct (negb (N.eqb g x) && a_has (a_del a x) g) eqn:Ec; cbn in Hn |- *.
    + destruct (H n Hn) as (H1 & H2 & H3). rewrite Eg in *. repeat split; auto.
      destruct (oeqb (a_sel a) x); [congruence|]. destruct (a_sel a); congruence.
    + destruct (H n Hn) as (H1 & H2 & H3). repeat split; auto; try discriminate.
      destruct (oeqb (a_sel a) x); [discriminate|exact H1].
  - cbn in Hn |- *. destruct (H n Hn) as (H1 & H2 & H3). rewrite Eg. repeat split; auto; try discriminate.
    destruct (oeqb (a_sel a) x); [discriminate|exact H1].
Qed.

Lemma A_ban_rollback l : forall a, A_ban a -> A_ban (a_rollback a l).
Proof. induction l as [|x l IH]; intros a H; cbn; auto. apply IH, A_ban_fall_back, H. Qed.

Lemma A_ban_query a : A_ban a -> A_ban (fst (a_query a)).
Proof.
  intros H. unfold a_query. destruct (a_sel a) as [n|]; [|exact H].
  destruct (a_has a n); [exact H|]. cbn. apply A_ban_fall_back, H.
Qed.

Lemma A_ban_start a : A_ban a -> A_ban (a_start a).
Proof.
  intros H. unfold a_start. pose proof (A_ban_query a H) as H1.
  destruct (a_query a) as [a' r]. cbn in H1. destruct r as [r0|]; [|exact H1].
  intros n Hn. cbn in *. destruct (H1 n Hn) as (X & Y & Z). auto.
Qed.

Lemma A_ban_success a : A_ban a -> A_ban (a_success a).
Proof.
  intros H. unfold a_success. destruct (a_boot a) as [b|] eqn:E; [|exact H].
  intros n Hn. cbn in *. destruct (H n Hn) as (X & Y & Z). rewrite E in Z. repeat split; auto; try congruence; try discriminate.
Qed.

Lemma in_add_bad n b l : In n (a_add_bad b l) -> n = b \/ In n l.
Proof. unfold a_add_bad. destruct (inb b l); cbn; intuition. Qed.

(* shape of a fall back: x is neither selected nor last good afterwards; what is running is untouched; a selection /
   last good patch afterwards was one before *)
Lemma fall_back_shape a x :
  a_sel (a_fall_back a x) <> Some x /\ a_good (a_fall_back a x) <> Some x /\ a_boot (a_fall_back a x) = a_boot a.
Proof.
  unfold a_fall_back.
  assert (Hs : (if oeqb (a_sel a) x then None else a_sel a) <> Some x).
  { destruct (oeqb (a_sel a) x) eqn:E; [discriminate|]. apply oeqb_false. exact E. }
  destruct (a_good a) as [g|] eqn:Eg.
  - destruct (negb (N.eqb g x) && a_has (a_del a x) g) eqn:Ec; cbn.
    + apply andb_prop in Ec. destruct Ec as [E1 _]. apply Bool.negb_true_iff, N.eqb_neq in E1.
      rewrite Eg. repeat split; try congruence.
      destruct (if oeqb (a_sel a) x then None else a_sel a) eqn:E; [exact Hs|congruence].
    + repeat split; [exact Hs|discriminate].
  - cbn. rewrite Eg. repeat split; [exact Hs|discriminate].
Qed.
Lemma S2' a x n : a_sel (a_fall_back a x) = Some n -> a_sel a = Some n \/ a_good a = Some n.
Proof.
  unfold a_fall_back. destruct (a_good a) as [g|] eqn:Eg.
  - destruct (negb (N.eqb g x) && a_has (a_del a x) g); cbn.
    + destruct (oeqb (a_sel a) x); [intros Hc; inversion Hc; auto|]. destruct (a_sel a); intros Hc; inversion Hc; auto.
    + destruct (oeqb (a_sel a) x); [discriminate|auto].
  - cbn. destruct (oeqb (a_sel a) x); [discriminate|auto].
Qed.
Lemma good_shape a x n : a_good (a_fall_back a x) = Some n -> a_good a = Some n.
Proof.
  unfold a_fall_back. destruct (a_good a) as [g|] eqn:Eg.
  - destruct (negb (N.eqb g x) && a_has (a_del a x) g); cbn; [rewrite Eg; auto|discriminate].
  - cbn. rewrite Eg. auto.
Qed.

Lemma A_ban_failure a : A_ban a -> A_ban (a_failure a).
Proof.
  intros H. unfold a_failure. destruct (a_boot a) as [b|] eqn:E; [|exact H].
  (* after the ban the booting number may still be selected / last good: falling back from it clears both *)
  set (a0 := a_with_ban (a_with_boot a None) (a_add_bad b (a_ban a))).
  assert (Hs0 : a_sel a0 = a_sel a) by reflexivity.
  assert (Hg0 : a_good a0 = a_good a) by reflexivity.
  assert (Hb0 : a_boot a0 = None) by reflexivity.
  assert (Hn0 : forall n, In n (a_ban a0) -> n = b \/ In n (a_ban a)) by (intros n; apply in_add_bad).
  assert (Hban : a_ban (a_fall_back a0 b) = a_ban a0).
  { unfold a_fall_back. destruct (a_good a0); [destruct (_ && _)|]; reflexivity. }
  intros n Hn. rewrite Hban in Hn.
  pose proof (fall_back_shape a0 b) as (S1 & S2 & S3).
  rewrite Hb0 in S3. split; [|split; [|rewrite S3; discriminate]].
  - destruct (Hn0 n Hn) as [->|Hin].
    + apply S1.
    + destruct (H n Hin) as (X & Y & Z). intros Hc.
      destruct (S2' a0 b n Hc) as [Hc'|Hc']; rewrite ?Hs0, ?Hg0 in Hc'; congruence.
  - destruct (Hn0 n Hn) as [->|Hin].
    + apply S2.
    + destruct (H n Hin) as (X & Y & Z). intros Hc. apply (good_shape a0 b n) in Hc. rewrite Hg0 in Hc. congruence.
Qed.

Lemma install_fields a n :
  a_sel (a_install a n) = Some n /\ a_good (a_install a n) = a_good a /\
  a_boot (a_install a n) = a_boot a /\ a_ban (a_install a n) = a_ban a.
Proof.
  unfold a_install. destruct (a_sel a) as [x|]; [destruct (a_good a) as [l|] eqn:Eg|].
  - destruct (negb (N.eqb l x) && negb (N.eqb x n) && negb (oeqb (a_boot a) x)); cbn; rewrite ?Eg; auto.
  - cbn. rewrite Eg. auto.
  - cbn. auto.
Qed.

Lemma A_ban_install a n : A_ban a -> ~ In n (a_ban a) -> A_ban (a_install a n).
Proof.
  intros H Hn k Hk. destruct (install_fields a n) as (E1 & E2 & E3 & E4).
  rewrite E4 in Hk. rewrite E1, E2, E3. destruct (H k Hk) as (X & Y & Z).
  repeat split; auto. intros E. inversion E; subst. contradiction.
Qed.

(* ---------- C01 on the abstract machine: without outside damage the selection always has its artifact ---------- *)
Definition A_sel_has (a : ast) : Prop := forall n, a_sel a = Some n -> a_has a n = true.

Lemma A_sel_has_fall_back a x : A_sel_has a -> A_sel_has (a_fall_back a x).
Proof.
  intros H n Hn. unfold a_fall_back in *.
  destruct (a_good a) as [g|] eqn:Eg.
  - destruct (negb (N.eqb g x) && a_has (a_del a x) g) eqn:Ec; cbn in Hn |- *.
    + apply andb_prop in Ec. destruct Ec as [E1 E2]. cbn in E2.
      destruct (oeqb (a_sel a) x) eqn:Es.
      * inversion Hn; subst. exact E2.
      * apply oeqb_false in Es. destruct (a_sel a) as [s|] eqn:Ess.
        -- inversion Hn; subst. destruct (N.eqb_spec n x) as [->|Hne]; [congruence|]. apply H. exact Ess.
        -- inversion Hn; subst. exact E2.
    + destruct (oeqb (a_sel a) x) eqn:Es; [discriminate|]. apply oeqb_false in Es.
      pose proof (H n Hn) as Hh.
      destruct (N.eqb_spec n x) as [->|Hne]; [congruence|].
      destruct (N.eqb_spec n g) as [->|Hng]; [|exact Hh].
      (* the selection is the last good patch itself: then the condition could not have failed *)
      exfalso. cbn in Ec. destruct (N.eqb_spec g x) as [->|Hgx]; [congruence|]. cbn in Ec. congruence.
  - cbn in Hn |- *. destruct (oeqb (a_sel a) x) eqn:Es; [discriminate|]. apply oeqb_false in Es.
    destruct (N.eqb_spec n x) as [->|Hne]; [congruence|]. apply H. exact Hn.
Qed.

Lemma A_sel_has_rollback l : forall a, A_sel_has a -> A_sel_has (a_rollback a l).
Proof. induction l as [|x l IH]; intros a H; cbn; auto. apply IH, A_sel_has_fall_back, H. Qed.

Lemma A_sel_has_success a : A_sel_has a -> A_sel_has (a_success a).
Proof.
  intros H. unfold a_success. destruct (a_boot a) as [b|]; [|exact H].
  intros n Hn. cbn in *. assert (E : oeqb (a_sel a) n = true) by (apply oeqb_true; exact Hn).
  rewrite E. cbn. rewrite Bool.andb_false_r. apply H. exact Hn.
Qed.

Lemma A_sel_has_failure a : A_sel_has a -> A_sel_has (a_failure a).
Proof.
  intros H. unfold a_failure. destruct (a_boot a) as [b|]; [|exact H].
  apply A_sel_has_fall_back. exact H.
Qed.

Lemma A_sel_has_install a n : A_sel_has (a_install a n).
Proof.
  intros k Hk. unfold a_install in *. cbn in Hk. inversion Hk; subst k.
  destruct (a_sel a) as [x|]; [destruct (a_good a) as [l|]|]; cbn; try (rewrite N.eqb_refl; reflexivity).
  destruct (negb (N.eqb l x) && negb (N.eqb x n) && negb (oeqb (a_boot a) x)) eqn:Ec; cbn.
  - apply andb_prop in Ec. destruct Ec as [Ec _]. apply andb_prop in Ec. destruct Ec as [_ E2].
    apply Bool.negb_true_iff, N.eqb_neq in E2.
    destruct (N.eqb_spec n x) as [->|_]; [congruence|]. rewrite N.eqb_refl. reflexivity.
  - rewrite N.eqb_refl. reflexivity.
Qed.

(* so a query simply answers the selection and changes nothing *)
Theorem query_is_the_selection a : A_sel_has a -> a_query a = (a, a_sel a).
Proof.
  intros H. unfold a_query. destruct (a_sel a) as [n|] eqn:E; [|reflexivity].
  rewrite (H n E). reflexivity.
Qed.

Lemma A_sel_has_start a : A_sel_has a -> A_sel_has (a_start a).
Proof.
  intros H. unfold a_start. rewrite (query_is_the_selection a H).
  destruct (a_sel a) as [s0|] eqn:Es; [|exact H]. intros n Hn. cbn in *. apply H. exact Hn.
Qed.

(* ---------- C09 / C10 on the abstract machine ---------- *)
(* an install selects the new patch *)
Theorem install_selects a n : a_sel (a_install a n) = Some n.
Proof. reflexivity. Qed.

(* falling back from another number keeps the selection *)
Theorem fall_back_other_keeps_selection a x n :
  a_sel a = Some n -> x <> n -> a_sel (a_fall_back a x) = Some n.
Proof.
  intros Hs Hx. unfold a_fall_back. rewrite Hs.
  assert (E : oeqb (Some n) x = false) by (apply oeqb_false; congruence). rewrite E.
  destruct (a_good a) as [g|]; [destruct (_ && _)|]; reflexivity.
Qed.

(* falling back from x: x is not selected afterwards and its artifact is gone (C10: honoured) *)
Theorem fall_back_removes a x : a_sel (a_fall_back a x) <> Some x /\ a_has (a_fall_back a x) x = false.
Proof.
  unfold a_fall_back.
  assert (Hs : (if oeqb (a_sel a) x then None else a_sel a) <> Some x).
  { destruct (oeqb (a_sel a) x) eqn:E; [discriminate|]. apply oeqb_false. exact E. }
  destruct (a_good a) as [g|] eqn:Eg.
  - destruct (negb (N.eqb g x) && a_has (a_del a x) g) eqn:Ec; cbn.
    + apply andb_prop in Ec. destruct Ec as [E1 _]. apply Bool.negb_true_iff, N.eqb_neq in E1.
      rewrite N.eqb_refl. split; [|reflexivity].
      destruct (if oeqb (a_sel a) x then None else a_sel a) eqn:E; [exact Hs|congruence].
    + rewrite N.eqb_refl. split; [exact Hs|]. destruct (N.eqb x g); reflexivity.
  - cbn. rewrite N.eqb_refl. split; [exact Hs|reflexivity].
Qed.

(* the fallback target of C03: if the selection is lost, the last good patch when it is not the lost one and has its
   artifact, else nothing *)
Theorem fall_back_target a x :
  a_sel a = Some x ->
  a_sel (a_fall_back a x) =
  match a_good a with
  | Some g => if negb (N.eqb g x) && a_has a g then Some g else None
  | None => None
  end.
Proof.
  intros Hs. unfold a_fall_back. rewrite Hs. cbn [oeqb]. rewrite N.eqb_refl.
  destruct (a_good a) as [g|]; [|reflexivity]. cbn [a_has a_del].
  destruct (N.eqb_spec g x) as [->|Hne]; cbn; [reflexivity|].
  destruct (a_has a g); reflexivity.
Qed.

(* ---------- C18 on the abstract machine ---------- *)
Definition a_current (a : ast) : option N := match a_boot a with Some b => Some b | None => a_good a end.

(* launch start makes the handed-out patch current; success keeps it current *)
Theorem start_sets_current a n :
  A_sel_has a -> a_sel a = Some n -> a_current (a_start a) = Some n.
Proof.
  intros H Hs. unfold a_start. rewrite (query_is_the_selection a H), Hs. cbn. unfold a_current. cbn. reflexivity || (rewrite Hs; reflexivity) || exact Hs.
Qed.
Theorem success_keeps_current a b : a_boot a = Some b -> a_current (a_success a) = Some b.
Proof. intros E. unfold a_success, a_current. rewrite E. reflexivity. Qed.
(* falling back from another number (a rollback of another patch) never changes what is running *)
Theorem fall_back_keeps_boot a x : a_boot (a_fall_back a x) = a_boot a.
Proof. unfold a_fall_back. destruct (a_good a); [destruct (_ && _)|]; reflexivity. Qed.
