(* JsonTextProofs.v — the strict reader accepts every sentence of the JSON grammar (stated as relations that allow
   optional white space, every escape form, any digit string for a number) and returns the tree the sentence denotes. *)
From UV Require Import Base Codec Model Json JsonText.
From Coq Require Import ZifyN ZifyBool ZifyNat Lia.
Local Open Scope N_scope.
Arguments N.add : simpl never.
Arguments N.mul : simpl never.
Arguments N.sub : simpl never.
Arguments N.div : simpl never.
Arguments N.modulo : simpl never.
Arguments N.eqb : simpl never.
Arguments N.ltb : simpl never.
Arguments N.leb : simpl never.

(* ---------- white space ---------- *)
Definition WS (w : bytes) : Prop := Forall (fun c => is_ws c = true) w.
Definition starts_nonws (l : bytes) : Prop := match l with [] => True | c :: _ => is_ws c = false end.

Lemma skip_ws_app w l : WS w -> starts_nonws l -> skip_ws (w ++ l) = l.
Proof.
  intros Hw Hl. induction Hw as [|c w Hc _ IH]; cbn [app].
  - destruct l as [|c r]; [reflexivity|]. cbn [skip_ws]. cbn in Hl. rewrite Hl. reflexivity.
  - cbn [skip_ws]. rewrite Hc. exact IH.
Qed.

(* ---------- strings ---------- *)
(* one item of a string body and the bytes it denotes *)
Inductive Item : bytes -> bytes -> Prop :=
| I_raw c : 32 <= c -> c <> 34 -> c <> 92 -> Item [c] [c]
| I_esc e b : simple_escape e = Some b -> e <> 117 -> Item [92; e] [b]
| I_u a b c d n : hex4 [a; b; c; d] = Some (n, []) -> is_low_surrogate n = false -> is_high_surrogate n = false ->
    Item [92; 117; a; b; c; d] (utf8_enc n)
| I_pair a b c d n a2 b2 c2 d2 n2 :
    hex4 [a; b; c; d] = Some (n, []) -> is_high_surrogate n = true ->
    hex4 [a2; b2; c2; d2] = Some (n2, []) -> is_low_surrogate n2 = true ->
    Item [92; 117; a; b; c; d; 92; 117; a2; b2; c2; d2] (utf8_enc (65536 + (n - 55296) * 1024 + (n2 - 56320))).

Inductive Body : bytes -> bytes -> Prop :=
| B_nil : Body [] []
| B_cons t d ts ds : Item t d -> Body ts ds -> Body (t ++ ts) (d ++ ds).

Lemma hex4_app a b c d n r : hex4 [a; b; c; d] = Some (n, []) -> hex4 (a :: b :: c :: d :: r) = Some (n, r).
Proof.
  unfold hex4. destruct (hexv a), (hexv b), (hexv c), (hexv d); try discriminate.
  intros H. injection H as <-. reflexivity.
Qed.

Lemma low_not_high n : is_low_surrogate n = true -> is_high_surrogate n = false.
Proof. unfold is_low_surrogate, is_high_surrogate. lia. Qed.
Lemma high_not_low n : is_high_surrogate n = true -> is_low_surrogate n = false.
Proof. unfold is_low_surrogate, is_high_surrogate. lia. Qed.

Lemma str_body_item t d : Item t d -> forall f rest acc,
  str_body (S f) true (t ++ rest) acc = str_body f true rest (rev d ++ acc).
Proof.
  intros H f rest acc. destruct H as [c H1 H2 H3|e b He Hu|a b c d n Hh Hl Hhi|a b c d n a2 b2 c2 d2 n2 Hh Hhi Hh2 Hl2].
  - cbn [app str_body rev].
    assert (E1 : (c =? 34) = false) by lia. assert (E2 : (c =? 92) = false) by lia. assert (E3 : (c <? 32) = false) by lia.
    rewrite E1, E2, E3. reflexivity.
  - cbn [app str_body rev].
    assert (E1 : (92 =? 34) = false) by reflexivity. assert (E2 : (92 =? 92) = true) by reflexivity.
    rewrite E1, E2. assert (E3 : (e =? 117) = false) by lia. rewrite E3, He. reflexivity.
  - cbn [app str_body].
    assert (E1 : (92 =? 34) = false) by reflexivity. assert (E2 : (92 =? 92) = true) by reflexivity.
    assert (E3 : (117 =? 117) = true) by reflexivity.
    rewrite E1, E2, E3. rewrite (hex4_app _ _ _ _ _ rest Hh). rewrite Hl, Hhi. reflexivity.
  - cbn [app str_body].
    assert (E1 : (92 =? 34) = false) by reflexivity. assert (E2 : (92 =? 92) = true) by reflexivity.
    assert (E3 : (117 =? 117) = true) by reflexivity.
    rewrite E1, E2, E3. rewrite (hex4_app _ _ _ _ _ _ Hh). rewrite (high_not_low _ Hhi), Hhi.
    rewrite E2, E3. cbn [andb]. rewrite (hex4_app _ _ _ _ _ rest Hh2). rewrite Hl2. reflexivity.
Qed.

Lemma body_items ts ds : Body ts ds -> (List.length ts >= List.length ds)%nat.
Proof.
  induction 1 as [|t d ts ds Hi _ IH]; [cbn; lia|]. rewrite !app_length.
  assert (List.length t >= List.length d)%nat; [|lia].
  destruct Hi; cbn [List.length]; try lia; unfold utf8_enc;
    repeat match goal with |- context [if ?b then _ else _] => destruct b end; cbn [List.length]; lia.
Qed.

Lemma str_body_body ts ds : Body ts ds -> forall f rest acc, (List.length ts < f)%nat ->
  str_body f true (ts ++ 34 :: rest) acc = Some (rev acc ++ ds, rest).
Proof.
  induction 1 as [|t d ts ds Hi Hb IH]; intros f rest acc Hf.
  - destruct f as [|f]; [lia|]. cbn [app str_body]. assert (E : (34 =? 34) = true) by reflexivity. rewrite E.
    rewrite app_nil_r. reflexivity.
  - destruct f as [|f]; [cbn in Hf; lia|]. rewrite <- app_assoc. rewrite (str_body_item _ _ Hi).
    rewrite IH.
    + rewrite rev_app_distr, rev_involutive, <- app_assoc. reflexivity.
    + rewrite app_length in Hf. assert (List.length t >= 1)%nat by (destruct Hi; cbn; lia). lia.
Qed.

(* a string token: quote, body, quote; what it denotes is valid UTF-8 *)
Definition Gstr (s : bytes) (b : bytes) : Prop :=
  exists ts, b = 34 :: ts ++ [34] /\ Body ts s /\ utf8_valid s = true.

Lemma parse_string_G s b rest f : Gstr s b -> (List.length b <= f)%nat ->
  match b ++ rest with c :: r => c = 34 /\ parse_string f r = Some (s, rest) | [] => False end.
Proof.
  intros (ts & -> & Hb & Hv) Hf. cbn [app]. split; [reflexivity|].
  unfold parse_string. rewrite <- app_assoc. cbn [app].
  rewrite (str_body_body _ _ Hb).
  - cbn [rev app]. rewrite Hv. reflexivity.
  - cbn [List.length] in Hf. rewrite app_length in Hf. cbn in Hf. lia.
Qed.

(* ---------- numbers ---------- *)
Definition AllDig (ds : bytes) : Prop := Forall (fun c => is_digit c = true) ds.
Definition val_from (acc : N) (ds : bytes) : N := fold_left (fun a c => a * 10 + (c - 48)) ds acc.
Definition nondigit_start (l : bytes) : Prop := match l with [] => True | c :: _ => is_digit c = false end.

Lemma digits_app ds : AllDig ds -> forall rest acc cnt, nondigit_start rest ->
  digits (ds ++ rest) acc cnt = (val_from acc ds, cnt + N.of_nat (List.length ds), rest).
Proof.
  induction 1 as [|c ds Hc _ IH]; intros rest acc cnt Hr.
  - cbn [app val_from fold_left List.length]. destruct rest as [|c r]; cbn [digits].
    + f_equal. f_equal. lia.
    + cbn in Hr. rewrite Hr. f_equal. f_equal. lia.
  - cbn [app digits]. rewrite Hc. rewrite IH by exact Hr. cbn [val_from fold_left List.length]. f_equal. f_equal. lia.
Qed.

Inductive IntPart : bytes -> N -> Prop :=
| IP_zero : IntPart [48] 0
| IP_nz d ds : is_digit d = true -> d <> 48 -> AllDig ds -> IntPart (d :: ds) (val_from 0 (d :: ds)).
Inductive Frac : bytes -> bool -> Prop :=
| F_none : Frac [] false
| F_some fs : fs <> [] -> AllDig fs -> Frac (46 :: fs) true.
Inductive Expo : bytes -> bool -> Prop :=
| E_none : Expo [] false
| E_some e sg es : e = 101 \/ e = 69 -> sg = [] \/ sg = [43] \/ sg = [45] -> es <> [] -> AllDig es ->
    Expo (e :: sg ++ es) true.

Definition Gnum (n : jnum) (b : bytes) : Prop :=
  exists neg ip v fr isf ex ise,
    b = (if neg : bool then [45] else []) ++ ip ++ fr ++ ex /\ IntPart ip v /\ Frac fr isf /\ Expo ex ise /\
    n = if ise then JFloat else classify isf neg v.

(* what may follow a value: nothing, white space, or a separator *)
Definition ok_rest (l : bytes) : Prop :=
  match l with [] => True | c :: _ => is_ws c = true \/ c = 44 \/ c = 93 \/ c = 125 end.

Lemma ok_rest_nondigit l : ok_rest l -> nondigit_start l.
Proof. destruct l as [|c r]; [auto|]. cbn. unfold is_ws, is_digit. intros [H | [-> | [-> | ->]]]; try reflexivity. lia. Qed.

Lemma len_pos {A} (l : list A) : l <> [] -> (0 < List.length l)%nat.
Proof. destruct l; [congruence|cbn; lia]. Qed.

Lemma frac_exp_G neg v fr isf ex ise rest :
  Frac fr isf -> Expo ex ise -> ok_rest rest ->
  frac_exp neg v (fr ++ ex ++ rest) = Some ((if ise then JFloat else classify isf neg v), rest).
Proof.
  intros Hf He Hr. unfold frac_exp.
  assert (Hexp : forall isf0, (match ex ++ rest with
            | c :: r =>
                if (c =? 101) || (c =? 69) then
                  let r1 := match r with s :: r' => if (s =? 43) || (s =? 45) then r' else r | [] => [] end in
                  let '(_, cnt, r2) := digits r1 0 0 in if cnt =? 0 then None else Some (JFloat, r2)
                else Some (classify isf0 neg v, ex ++ rest)
            | [] => Some (classify isf0 neg v, [])
            end) = Some ((if ise then JFloat else classify isf0 neg v), rest)).
  { intros isf0. destruct He as [|e sg es Hee Hsg Hne Hd].
    - cbn [app]. destruct rest as [|c r]; [reflexivity|].
      assert (E : ((c =? 101) || (c =? 69)) = false).
      { cbn in Hr. unfold is_ws in Hr. destruct Hr as [H | [-> | [-> | ->]]]; try reflexivity. lia. }
      rewrite E. reflexivity.
    - cbn [app]. assert (E : ((e =? 101) || (e =? 69)) = true) by lia. rewrite E.
      assert (Hes : exists e0 es', es = e0 :: es' /\ is_digit e0 = true).
      { destruct es as [|e0 es']; [congruence|]. inversion Hd; subst. eauto. }
      destruct Hes as (e0 & es' & -> & He0).
      assert (R1 : (match (sg ++ e0 :: es') ++ rest with
                    | s :: r' => if (s =? 43) || (s =? 45) then r' else (sg ++ e0 :: es') ++ rest
                    | [] => [] end) = (e0 :: es') ++ rest).
      { destruct Hsg as [-> | [-> | ->]]; cbn [app].
        - assert (E0 : ((e0 =? 43) || (e0 =? 45)) = false) by (unfold is_digit in He0; lia). rewrite E0. reflexivity.
        - reflexivity.
        - reflexivity. }
      rewrite R1. rewrite (digits_app _ Hd) by (apply ok_rest_nondigit; exact Hr).
      assert (Ec : (0 + N.of_nat (List.length (e0 :: es')) =? 0) = false) by (cbn [List.length]; lia).
      rewrite Ec. reflexivity. }
  destruct Hf as [|fs Hne Hd].
  - cbn [app].
    assert (Hhead : match ex ++ rest with c :: _ => (c =? 46) = false | [] => True end).
    { destruct He as [|e sg es Hee _ _ _]; cbn [app].
      - destruct rest as [|c r]; [exact I|]. cbn in Hr. unfold is_ws in Hr. destruct Hr as [H | [-> | [-> | ->]]]; try reflexivity. lia.
      - lia. }
    specialize (Hexp false). destruct (ex ++ rest) as [|c r].
    + exact Hexp.
    + rewrite Hhead. exact Hexp.
  - cbn [app]. assert (E : (46 =? 46) = true) by reflexivity. rewrite E.
    assert (Hnd : nondigit_start (ex ++ rest)).
    { destruct He as [|e sg es Hee _ _ _]; cbn [app]; [apply ok_rest_nondigit; exact Hr|]. cbn. unfold is_digit. lia. }
    rewrite (digits_app _ Hd) by exact Hnd.
    assert (Ec : (0 + N.of_nat (List.length fs) =? 0) = false) by (pose proof (len_pos fs Hne); lia).
    rewrite Ec. apply Hexp.
Qed.

Lemma parse_number_G n b rest : Gnum n b -> ok_rest rest -> parse_number (b ++ rest) = Some (n, rest).
Proof.
  intros (neg & ip & v & fr & isf & ex & ise & -> & Hip & Hf & He & ->) Hr.
  unfold parse_number.
  assert (Hmain : forall l1, l1 = ip ++ fr ++ ex ++ rest ->
     match l1 with
     | [] => None
     | c :: r =>
         if c =? 48 then match r with d :: _ => if is_digit d then None else frac_exp neg 0 r | [] => frac_exp neg 0 r end
         else if is_digit c then let '(v0, _, r') := digits l1 0 0 in frac_exp neg v0 r'
         else None
     end = Some ((if ise then JFloat else classify isf neg v), rest)).
  { intros l1 ->. destruct Hip as [|d ds Hd Hnz Hds].
    - cbn [app]. assert (E : (48 =? 48) = true) by reflexivity. rewrite E.
      assert (Hnd : nondigit_start (fr ++ ex ++ rest)).
      { destruct Hf as [|fs _ _]; cbn [app].
        - destruct He as [|e sg es Hee _ _ _]; cbn [app]; [apply ok_rest_nondigit; exact Hr|]. cbn. unfold is_digit. lia.
        - cbn. reflexivity. }
      destruct (fr ++ ex ++ rest) as [|c r] eqn:E2.
      + rewrite <- E2. apply frac_exp_G; assumption.
      + cbn in Hnd. rewrite Hnd. rewrite <- E2. apply frac_exp_G; assumption.
    - cbn [app]. assert (E : (d =? 48) = false) by lia. rewrite E, Hd.
      change (d :: ds ++ fr ++ ex ++ rest) with ((d :: ds) ++ fr ++ ex ++ rest).
      assert (Hnd : nondigit_start (fr ++ ex ++ rest)).
      { destruct Hf as [|fs _ _]; cbn [app].
        - destruct He as [|e sg es Hee _ _ _]; cbn [app]; [apply ok_rest_nondigit; exact Hr|]. cbn. unfold is_digit. lia.
        - cbn. reflexivity. }
      rewrite (digits_app (d :: ds)) by (try exact Hnd; constructor; assumption).
      apply frac_exp_G; assumption. }
  destruct neg.
  - cbn [app]. assert (E : (45 =? 45) = true) by reflexivity. rewrite E. rewrite <- !app_assoc. apply Hmain. reflexivity.
  - cbn [app]. rewrite <- !app_assoc.
    assert (Hc : match ip ++ fr ++ ex ++ rest with c :: _ => (c =? 45) = false | [] => True end).
    { destruct Hip as [|d ds Hd _ _]; cbn [app]; [reflexivity|]. unfold is_digit in Hd. lia. }
    specialize (Hmain _ eq_refl).
    destruct (ip ++ fr ++ ex ++ rest) as [|c r].
    + discriminate.
    + rewrite Hc. exact Hmain.
Qed.

(* ---------- values ---------- *)
Inductive G : json -> bytes -> Prop :=
| G_null : G JNull [110; 117; 108; 108]
| G_true : G (JBool true) [116; 114; 117; 101]
| G_false : G (JBool false) [102; 97; 108; 115; 101]
| G_num n b : Gnum n b -> G (JNum n) b
| G_str s b : Gstr s b -> G (JStr (str_of s)) b
| G_arr0 w : WS w -> G (JArr []) (91 :: w ++ [93])
| G_arr l w b : WS w -> GE l b -> G (JArr l) (91 :: w ++ b)
| G_obj0 w : WS w -> G (JObj []) (123 :: w ++ [125])
| G_obj l w b : WS w -> GM l b -> G (JObj l) (123 :: w ++ b)
with GE : list json -> bytes -> Prop :=
| GE_last v b w2 : G v b -> WS w2 -> GE [v] (b ++ w2 ++ [93])
| GE_cons v b w2 w1 l b' : G v b -> WS w2 -> WS w1 -> GE l b' -> GE (v :: l) (b ++ w2 ++ 44 :: w1 ++ b')
with GM : list (string * json) -> bytes -> Prop :=
| GM_last k kb w2 w3 v b w4 : Gstr k kb -> WS w2 -> WS w3 -> G v b -> WS w4 ->
    GM [(str_of k, v)] (kb ++ w2 ++ 58 :: w3 ++ b ++ w4 ++ [125])
| GM_cons k kb w2 w3 v b w4 w1 l b' : Gstr k kb -> WS w2 -> WS w3 -> G v b -> WS w4 -> WS w1 -> GM l b' ->
    GM ((str_of k, v) :: l) (kb ++ w2 ++ 58 :: w3 ++ b ++ w4 ++ 44 :: w1 ++ b').

Scheme G_mut := Induction for G Sort Prop
  with GE_mut := Induction for GE Sort Prop
  with GM_mut := Induction for GM Sort Prop.
Combined Scheme G_GE_GM_ind from G_mut, GE_mut, GM_mut.

(* the first byte of a value *)
Definition vstart (c : N) : Prop :=
  c = 110 \/ c = 116 \/ c = 102 \/ c = 34 \/ c = 45 \/ is_digit c = true \/ c = 91 \/ c = 123.

Lemma Gnum_head n b : Gnum n b -> exists c r, b = c :: r /\ (c = 45 \/ is_digit c = true).
Proof.
  intros (neg & ip & v & fr & isf & ex & ise & -> & Hip & _). destruct neg; cbn [app].
  - eauto.
  - destruct Hip as [|d ds Hd _ _]; cbn [app]; eexists _, _; split; try reflexivity; right; [reflexivity|exact Hd].
Qed.

Lemma G_head t b : G t b -> exists c r, b = c :: r /\ vstart c.
Proof.
  unfold vstart. destruct 1 as [| | |n b Hn|s b Hs|w Hw|l w b Hw He|w Hw|l w b Hw Hm]; try (eexists _, _; split; [reflexivity|]; tauto).
  - destruct (Gnum_head _ _ Hn) as (c & r & -> & [->|H]); eexists _, _; split; try reflexivity; tauto.
  - destruct Hs as (ts & -> & _). eexists _, _; split; [reflexivity|]. tauto.
Qed.

Lemma vstart_nonws c : vstart c -> is_ws c = false.
Proof. unfold vstart, is_ws, is_digit. intros H. lia. Qed.

Lemma G_starts t b rest : G t b -> starts_nonws (b ++ rest).
Proof. intros H. destruct (G_head _ _ H) as (c & r & -> & Hc). cbn. apply vstart_nonws. exact Hc. Qed.

Lemma ok_rest_sep w c X : WS w -> c = 44 \/ c = 93 \/ c = 125 -> ok_rest (w ++ c :: X).
Proof.
  intros Hw Hc. destruct Hw as [|x w Hx _]; cbn [app ok_rest]; [right; exact Hc|left; exact Hx].
Qed.

Lemma sep_nonws c X : c = 44 \/ c = 93 \/ c = 125 \/ c = 58 -> starts_nonws (c :: X).
Proof. cbn. unfold is_ws. lia. Qed.

Lemma lit_ok w l : lit w (w ++ l) = Some l.
Proof. induction w as [|x w IH]; [reflexivity|]. cbn [app lit]. rewrite N.eqb_refl. exact IH. Qed.

Definition PG (t : json) (b : bytes) (_ : G t b) : Prop :=
  forall w rest fuel, WS w -> ok_rest rest -> (List.length b < fuel)%nat ->
    parse_value fuel (w ++ b ++ rest) = Some (t, rest).
Definition PE (l : list json) (b : bytes) (_ : GE l b) : Prop :=
  forall w rest acc fuel, WS w -> (List.length b < fuel)%nat ->
    parse_elems fuel (w ++ b ++ rest) acc = Some (JArr (rev acc ++ l), rest).
Definition PM (l : list (string * json)) (b : bytes) (_ : GM l b) : Prop :=
  forall w rest acc fuel, WS w -> (List.length b < fuel)%nat ->
    parse_members fuel (w ++ b ++ rest) acc = Some (JObj (rev acc ++ l), rest).

Lemma GE_head l b : GE l b -> exists c r, b = c :: r /\ vstart c.
Proof.
  destruct 1 as [v b w2 Hv _|v b w2 w1 l b' Hv _ _ _]; destruct (G_head _ _ Hv) as (c & r & -> & Hc); cbn [app]; eauto.
Qed.
Lemma GM_head l b : GM l b -> exists r, b = 34 :: r.
Proof.
  destruct 1 as [k kb w2 w3 v b w4 (ts & -> & _) _ _ _ _|k kb w2 w3 v b w4 w1 l b' (ts & -> & _) _ _ _ _ _ _]; cbn [app]; eauto.
Qed.

Ltac lens H := repeat (rewrite app_length in H); cbn [List.length] in H; repeat (rewrite app_length in H);
  cbn [List.length] in H; repeat (rewrite app_length in H); cbn [List.length] in H.

Theorem strict_reader_complete :
  (forall t b (g : G t b), PG t b g) /\ (forall l b (g : GE l b), PE l b g) /\ (forall l b (g : GM l b), PM l b g).
Proof.
  apply G_GE_GM_ind; unfold PG, PE, PM.
  - (* null *) intros w rest fuel Hw Hr Hf. destruct fuel as [|f]; [lia|]. cbn [parse_value].
    rewrite skip_ws_app by (auto; cbn; reflexivity). cbn [app].
    assert (E : (110 =? 110) = true) by reflexivity. rewrite E.
    change (117 :: 108 :: 108 :: rest) with ([117; 108; 108] ++ rest). rewrite lit_ok. reflexivity.
  - intros w rest fuel Hw Hr Hf. destruct fuel as [|f]; [lia|]. cbn [parse_value].
    rewrite skip_ws_app by (auto; cbn; reflexivity). cbn [app].
    assert (E1 : (116 =? 110) = false) by reflexivity. assert (E2 : (116 =? 116) = true) by reflexivity. rewrite E1, E2.
    change (114 :: 117 :: 101 :: rest) with ([114; 117; 101] ++ rest). rewrite lit_ok. reflexivity.
  - intros w rest fuel Hw Hr Hf. destruct fuel as [|f]; [lia|]. cbn [parse_value].
    rewrite skip_ws_app by (auto; cbn; reflexivity). cbn [app].
    assert (E1 : (102 =? 110) = false) by reflexivity. assert (E2 : (102 =? 116) = false) by reflexivity.
    assert (E3 : (102 =? 102) = true) by reflexivity. rewrite E1, E2, E3.
    change (97 :: 108 :: 115 :: 101 :: rest) with ([97; 108; 115; 101] ++ rest). rewrite lit_ok. reflexivity.
  - (* number *) intros n b Hn w rest fuel Hw Hr Hf. destruct fuel as [|f]; [lia|]. cbn [parse_value].
    destruct (Gnum_head _ _ Hn) as (c & r & Eb & Hc).
    rewrite skip_ws_app; [|exact Hw|subst b; cbn; unfold is_ws, is_digit in *; lia].
    pose proof (parse_number_G _ _ rest Hn Hr) as Hp. subst b. cbn [app] in *.
    assert (E1 : (c =? 110) = false) by (unfold is_digit in Hc; lia).
    assert (E2 : (c =? 116) = false) by (unfold is_digit in Hc; lia).
    assert (E3 : (c =? 102) = false) by (unfold is_digit in Hc; lia).
    assert (E4 : (c =? 34) = false) by (unfold is_digit in Hc; lia).
    assert (E5 : ((c =? 45) || is_digit c) = true) by (unfold is_digit in *; lia).
    rewrite E1, E2, E3, E4, E5, Hp. reflexivity.
  - (* string *) intros s b Hs w rest fuel Hw Hr Hf. destruct fuel as [|f]; [lia|]. cbn [parse_value].
    pose proof (parse_string_G s b rest (S f) Hs ltac:(lia)) as Hp.
    destruct Hs as (ts & Eb & _). subst b. cbn [app] in *.
    rewrite skip_ws_app; [|exact Hw|cbn; reflexivity].
    destruct Hp as [_ Hp].
    assert (E1 : (34 =? 110) = false) by reflexivity. assert (E2 : (34 =? 116) = false) by reflexivity.
    assert (E3 : (34 =? 102) = false) by reflexivity. assert (E4 : (34 =? 34) = true) by reflexivity.
    rewrite E1, E2, E3, E4, Hp. reflexivity.
  - (* [] *) intros w0 Hw0 w rest fuel Hw Hr Hf. destruct fuel as [|f]; [lia|]. cbn [parse_value].
    rewrite skip_ws_app; [|exact Hw|cbn; reflexivity]. cbn [app].
    assert (E1 : (91 =? 110) = false) by reflexivity. assert (E2 : (91 =? 116) = false) by reflexivity.
    assert (E3 : (91 =? 102) = false) by reflexivity. assert (E4 : (91 =? 34) = false) by reflexivity.
    assert (E5 : ((91 =? 45) || is_digit 91) = false) by reflexivity. assert (E6 : (91 =? 91) = true) by reflexivity.
    rewrite E1, E2, E3, E4, E5, E6. rewrite <- app_assoc. rewrite skip_ws_app; [|exact Hw0|cbn; reflexivity].
    cbn [app]. assert (E7 : (93 =? 93) = true) by reflexivity. rewrite E7. reflexivity.
  - (* [elems] *) intros l w0 b Hw0 He IH w rest fuel Hw Hr Hf. destruct fuel as [|f]; [lia|]. cbn [parse_value].
    rewrite skip_ws_app; [|exact Hw|cbn; reflexivity]. cbn [app].
    assert (E1 : (91 =? 110) = false) by reflexivity. assert (E2 : (91 =? 116) = false) by reflexivity.
    assert (E3 : (91 =? 102) = false) by reflexivity. assert (E4 : (91 =? 34) = false) by reflexivity.
    assert (E5 : ((91 =? 45) || is_digit 91) = false) by reflexivity. assert (E6 : (91 =? 91) = true) by reflexivity.
    rewrite E1, E2, E3, E4, E5, E6. rewrite <- app_assoc.
    destruct (GE_head _ _ He) as (c & r & Eb & Hc).
    rewrite skip_ws_app; [|exact Hw0|subst b; cbn; apply vstart_nonws; exact Hc].
    assert (Hlen : (List.length b < f)%nat) by (cbn [List.length] in Hf; rewrite app_length in Hf; lia).
    specialize (IH [] rest [] f (Forall_nil _) Hlen). cbn [app rev] in IH.
    subst b. cbn [app] in *. assert (E7 : (c =? 93) = false) by (unfold vstart, is_digit in Hc; lia). rewrite E7. exact IH.
  - (* {} *) intros w0 Hw0 w rest fuel Hw Hr Hf. destruct fuel as [|f]; [lia|]. cbn [parse_value].
    rewrite skip_ws_app; [|exact Hw|cbn; reflexivity]. cbn [app].
    assert (E1 : (123 =? 110) = false) by reflexivity. assert (E2 : (123 =? 116) = false) by reflexivity.
    assert (E3 : (123 =? 102) = false) by reflexivity. assert (E4 : (123 =? 34) = false) by reflexivity.
    assert (E5 : ((123 =? 45) || is_digit 123) = false) by reflexivity. assert (E6 : (123 =? 91) = false) by reflexivity.
    assert (E6' : (123 =? 123) = true) by reflexivity.
    rewrite E1, E2, E3, E4, E5, E6, E6'. rewrite <- app_assoc. rewrite skip_ws_app; [|exact Hw0|cbn; reflexivity].
    cbn [app]. assert (E7 : (125 =? 125) = true) by reflexivity. rewrite E7. reflexivity.
  - (* {members} *) intros l w0 b Hw0 Hm IH w rest fuel Hw Hr Hf. destruct fuel as [|f]; [lia|]. cbn [parse_value].
    rewrite skip_ws_app; [|exact Hw|cbn; reflexivity]. cbn [app].
    assert (E1 : (123 =? 110) = false) by reflexivity. assert (E2 : (123 =? 116) = false) by reflexivity.
    assert (E3 : (123 =? 102) = false) by reflexivity. assert (E4 : (123 =? 34) = false) by reflexivity.
    assert (E5 : ((123 =? 45) || is_digit 123) = false) by reflexivity. assert (E6 : (123 =? 91) = false) by reflexivity.
    assert (E6' : (123 =? 123) = true) by reflexivity.
    rewrite E1, E2, E3, E4, E5, E6, E6'. rewrite <- app_assoc.
    destruct (GM_head _ _ Hm) as (r & Eb).
    rewrite skip_ws_app; [|exact Hw0|subst b; cbn; reflexivity].
    assert (Hlen : (List.length b < f)%nat) by (cbn [List.length] in Hf; rewrite app_length in Hf; lia).
    specialize (IH [] rest [] f (Forall_nil _) Hlen). cbn [app rev] in IH.
    subst b. cbn [app] in *. assert (E7 : (34 =? 125) = false) by reflexivity. rewrite E7. exact IH.
  - (* last element *) intros v b w2 Hv IHv Hw2 w rest acc fuel Hw Hf. destruct fuel as [|f]; [lia|]. cbn [parse_elems].
    rewrite <- !app_assoc.
    lens Hf.
    rewrite (IHv w (w2 ++ [93] ++ rest) f Hw); [|apply ok_rest_sep; [exact Hw2|tauto]|lia].
    rewrite skip_ws_app; [|exact Hw2|cbn; reflexivity]. cbn [app].
    assert (E1 : (93 =? 44) = false) by reflexivity. assert (E2 : (93 =? 93) = true) by reflexivity. rewrite E1, E2.
    cbn [rev]. reflexivity.
  - (* element, comma, more *) intros v b w2 w1 l b' Hv IHv Hw2 Hw1 He IHe w rest acc fuel Hw Hf.
    destruct fuel as [|f]; [lia|]. cbn [parse_elems].
    rewrite <- !app_assoc. lens Hf.
    rewrite (IHv w (w2 ++ (44 :: w1 ++ b') ++ rest) f Hw); [|apply ok_rest_sep; [exact Hw2|tauto]|lia].
    rewrite skip_ws_app; [|exact Hw2|cbn; reflexivity]. cbn [app].
    assert (E1 : (44 =? 44) = true) by reflexivity. rewrite E1.
    destruct (G_head _ _ Hv) as (c0 & r0 & Eb0 & _). assert (1 <= List.length b)%nat by (subst b; cbn; lia).
    rewrite <- app_assoc. rewrite (IHe w1 rest (v :: acc) f Hw1) by lia.
    cbn [rev]. rewrite <- app_assoc. reflexivity.
  - (* last member *) intros k kb w2 w3 v b w4 Hk Hw2 Hw3 Hv IHv Hw4 w rest acc fuel Hw Hf.
    destruct fuel as [|f]; [lia|]. cbn [parse_members].
    rewrite <- !app_assoc. lens Hf.
    pose proof (parse_string_G k kb (w2 ++ (58 :: w3 ++ b ++ w4 ++ [125]) ++ rest) (S f) Hk ltac:(lia)) as Hp.
    destruct Hk as (ts & Ekb & Hbody & Hval). subst kb. cbn [app] in *.
    rewrite skip_ws_app; [|exact Hw|cbn; reflexivity].
    assert (E0 : (34 =? 34) = true) by reflexivity. rewrite E0.
    destruct Hp as [_ Hp]. rewrite <- !app_assoc in Hp. cbn [app] in Hp. rewrite <- !app_assoc. cbn [app]. rewrite Hp.
    rewrite skip_ws_app; [|exact Hw2|cbn; reflexivity].
    assert (E1 : (58 =? 58) = true) by reflexivity. rewrite E1.
    rewrite (IHv w3 (w4 ++ 125 :: rest) f Hw3); [|apply ok_rest_sep; [exact Hw4|tauto]|lia].
    rewrite skip_ws_app; [|exact Hw4|cbn; reflexivity]. cbn [app].
    assert (E2 : (125 =? 44) = false) by reflexivity. assert (E3 : (125 =? 125) = true) by reflexivity. rewrite E2, E3.
    cbn [rev]. reflexivity.
  - (* member, comma, more *) intros k kb w2 w3 v b w4 w1 l b' Hk Hw2 Hw3 Hv IHv Hw4 Hw1 Hm IHm w rest acc fuel Hw Hf.
    destruct fuel as [|f]; [lia|]. cbn [parse_members].
    rewrite <- !app_assoc. lens Hf.
    pose proof (parse_string_G k kb (w2 ++ (58 :: w3 ++ b ++ w4 ++ 44 :: w1 ++ b') ++ rest) (S f) Hk ltac:(lia)) as Hp.
    destruct Hk as (ts & Ekb & Hbody & Hval). subst kb. cbn [app] in *.
    rewrite skip_ws_app; [|exact Hw|cbn; reflexivity].
    assert (E0 : (34 =? 34) = true) by reflexivity. rewrite E0.
    destruct Hp as [_ Hp]. rewrite <- !app_assoc in Hp. cbn [app] in Hp. rewrite <- !app_assoc. cbn [app]. rewrite Hp.
    rewrite skip_ws_app; [|exact Hw2|cbn; reflexivity].
    assert (E1 : (58 =? 58) = true) by reflexivity. rewrite E1.
    rewrite (IHv w3 (w4 ++ 44 :: (w1 ++ b') ++ rest) f Hw3); [|apply ok_rest_sep; [exact Hw4|tauto]|lia].
    rewrite skip_ws_app; [|exact Hw4|cbn; reflexivity]. cbn [app].
    assert (E2 : (44 =? 44) = true) by reflexivity. rewrite E2.
    rewrite <- app_assoc. rewrite (IHm w1 rest ((str_of k, v) :: acc) f Hw1) by lia.
    cbn [rev]. rewrite <- app_assoc. reflexivity.
Qed.

Theorem strict_reader_reads_every_sentence t b : G t b ->
  forall w rest fuel, WS w -> ok_rest rest -> (List.length b < fuel)%nat ->
    parse_value fuel (w ++ b ++ rest) = Some (t, rest).
Proof. intros g. exact (proj1 strict_reader_complete t b g). Qed.

Lemma skip_ws_all w : WS w -> skip_ws w = [].
Proof. induction 1 as [|c w Hc _ IH]; [reflexivity|]. cbn [skip_ws]. rewrite Hc. exact IH. Qed.

(* a whole body: optional white space, one value, optional white space *)
Theorem parse_json_complete t b w w' : G t b -> WS w -> WS w' -> parse_json (w ++ b ++ w') = Some t.
Proof.
  intros g Hw Hw'. unfold parse_json.
  rewrite (strict_reader_reads_every_sentence t b g w w').
  - rewrite (skip_ws_all _ Hw'). reflexivity.
  - exact Hw.
  - destruct Hw' as [|c r Hc _]; cbn; auto.
  - unfold fuel_for. rewrite !app_length. lia.
Qed.

(* ---------- the scanner: the same grammar with unchecked string contents ---------- *)
Inductive LItem : bytes -> Prop :=
| LI_raw c : 32 <= c -> c <> 34 -> c <> 92 -> LItem [c]
| LI_esc e b : simple_escape e = Some b -> e <> 117 -> LItem [92; e]
| LI_u a b c d n : hex4 [a; b; c; d] = Some (n, []) -> LItem [92; 117; a; b; c; d].
Inductive LBody : bytes -> Prop :=
| LB_nil : LBody []
| LB_cons t ts : LItem t -> LBody ts -> LBody (t ++ ts).
Definition Lstr (b : bytes) : Prop := exists ts, b = 34 :: ts ++ [34] /\ LBody ts.

Lemma str_body_litem t : LItem t -> forall f rest acc,
  str_body (S f) false (t ++ rest) acc = str_body f false rest acc.
Proof.
  intros H f rest acc. destruct H as [c H1 H2 H3|e b He Hu|a b c d n Hh].
  - cbn [app str_body].
    assert (E1 : (c =? 34) = false) by lia. assert (E2 : (c =? 92) = false) by lia. assert (E3 : (c <? 32) = false) by lia.
    rewrite E1, E2, E3. reflexivity.
  - cbn [app str_body].
    assert (E1 : (92 =? 34) = false) by reflexivity. assert (E2 : (92 =? 92) = true) by reflexivity.
    rewrite E1, E2. assert (E3 : (e =? 117) = false) by lia. rewrite E3, He. reflexivity.
  - cbn [app str_body].
    assert (E1 : (92 =? 34) = false) by reflexivity. assert (E2 : (92 =? 92) = true) by reflexivity.
    assert (E3 : (117 =? 117) = true) by reflexivity.
    rewrite E1, E2, E3. rewrite (hex4_app _ _ _ _ _ rest Hh). reflexivity.
Qed.

Lemma str_body_lbody ts : LBody ts -> forall f rest acc, (List.length ts < f)%nat ->
  str_body f false (ts ++ 34 :: rest) acc = Some (rev acc, rest).
Proof.
  induction 1 as [|t ts Hi Hb IH]; intros f rest acc Hf.
  - destruct f as [|f]; [lia|]. cbn [app str_body]. assert (E : (34 =? 34) = true) by reflexivity. rewrite E. reflexivity.
  - destruct f as [|f]; [cbn in Hf; lia|]. rewrite <- app_assoc. rewrite (str_body_litem _ Hi).
    apply IH. rewrite app_length in Hf. assert (List.length t >= 1)%nat by (destruct Hi; cbn; lia). lia.
Qed.

Lemma skip_string_L b rest f : Lstr b -> (List.length b <= f)%nat ->
  match b ++ rest with c :: r => c = 34 /\ skip_string f r = Some rest | [] => False end.
Proof.
  intros (ts & -> & Hb) Hf. cbn [app]. split; [reflexivity|].
  unfold skip_string. rewrite <- app_assoc. cbn [app]. rewrite (str_body_lbody _ Hb); [reflexivity|].
  cbn [List.length] in Hf. rewrite app_length in Hf. cbn in Hf. lia.
Qed.

(* every strict string token is a lenient one *)
Lemma Body_LBody ts ds : Body ts ds -> LBody ts.
Proof.
  induction 1 as [|t d ts ds Hi _ IH]; [constructor|].
  destruct Hi as [c H1 H2 H3|e b He Hu|a b c d n Hh _ _|a b c d n a2 b2 c2 d2 n2 Hh _ Hh2 _].
  - constructor; [constructor; assumption|exact IH].
  - constructor; [econstructor; eassumption|exact IH].
  - constructor; [econstructor; eassumption|exact IH].
  - change ([92; 117; a; b; c; d; 92; 117; a2; b2; c2; d2] ++ ts) with ([92; 117; a; b; c; d] ++ [92; 117; a2; b2; c2; d2] ++ ts).
    constructor; [econstructor; eassumption|]. constructor; [econstructor; eassumption|exact IH].
Qed.
Lemma Gstr_Lstr s b : Gstr s b -> Lstr b.
Proof. intros (ts & -> & Hb & _). exists ts. split; [reflexivity|]. eapply Body_LBody; eassumption. Qed.

Inductive L : bytes -> Prop :=
| L_null : L [110; 117; 108; 108]
| L_true : L [116; 114; 117; 101]
| L_false : L [102; 97; 108; 115; 101]
| L_num n b : Gnum n b -> L b
| L_str b : Lstr b -> L b
| L_arr0 w : WS w -> L (91 :: w ++ [93])
| L_arr w b : WS w -> LE b -> L (91 :: w ++ b)
| L_obj0 w : WS w -> L (123 :: w ++ [125])
| L_obj w b : WS w -> LM b -> L (123 :: w ++ b)
with LE : bytes -> Prop :=
| LE_last b w2 : L b -> WS w2 -> LE (b ++ w2 ++ [93])
| LE_cons b w2 w1 b' : L b -> WS w2 -> WS w1 -> LE b' -> LE (b ++ w2 ++ 44 :: w1 ++ b')
with LM : bytes -> Prop :=
| LM_last kb w2 w3 b w4 : Lstr kb -> WS w2 -> WS w3 -> L b -> WS w4 ->
    LM (kb ++ w2 ++ 58 :: w3 ++ b ++ w4 ++ [125])
| LM_cons kb w2 w3 b w4 w1 b' : Lstr kb -> WS w2 -> WS w3 -> L b -> WS w4 -> WS w1 -> LM b' ->
    LM (kb ++ w2 ++ 58 :: w3 ++ b ++ w4 ++ 44 :: w1 ++ b').

Scheme L_mut := Induction for L Sort Prop
  with LE_mut := Induction for LE Sort Prop
  with LM_mut := Induction for LM Sort Prop.
Combined Scheme L_LE_LM_ind from L_mut, LE_mut, LM_mut.

Lemma L_head b : L b -> exists c r, b = c :: r /\ vstart c.
Proof.
  unfold vstart. destruct 1 as [| | |n b Hn|b Hs|w Hw|w b Hw He|w Hw|w b Hw Hm]; try (eexists _, _; split; [reflexivity|]; tauto).
  - destruct (Gnum_head _ _ Hn) as (c & r & -> & [->|H]); eexists _, _; split; try reflexivity; tauto.
  - destruct Hs as (ts & -> & _). eexists _, _; split; [reflexivity|]. tauto.
Qed.
Lemma LE_head b : LE b -> exists c r, b = c :: r /\ vstart c.
Proof. destruct 1 as [b w2 Hv _|b w2 w1 b' Hv _ _ _]; destruct (L_head _ Hv) as (c & r & -> & Hc); cbn [app]; eauto. Qed.
Lemma LM_head b : LM b -> exists r, b = 34 :: r.
Proof. destruct 1 as [kb w2 w3 b w4 (ts & -> & _) _ _ _ _|kb w2 w3 b w4 w1 b' (ts & -> & _) _ _ _ _ _ _]; cbn [app]; eauto. Qed.

Definition QL (b : bytes) (_ : L b) : Prop :=
  forall w rest fuel, WS w -> ok_rest rest -> (List.length b < fuel)%nat -> ignore_value fuel (w ++ b ++ rest) = Some rest.
Definition QE (b : bytes) (_ : LE b) : Prop :=
  forall w rest fuel, WS w -> (List.length b < fuel)%nat -> ignore_elems fuel (w ++ b ++ rest) = Some rest.
Definition QM (b : bytes) (_ : LM b) : Prop :=
  forall w rest fuel, WS w -> (List.length b < fuel)%nat -> ignore_members fuel (w ++ b ++ rest) = Some rest.

Theorem scanner_complete :
  (forall b (l : L b), QL b l) /\ (forall b (l : LE b), QE b l) /\ (forall b (l : LM b), QM b l).
Proof.
  apply L_LE_LM_ind; unfold QL, QE, QM.
  - intros w rest fuel Hw Hr Hf. destruct fuel as [|f]; [lia|]. cbn [ignore_value].
    rewrite skip_ws_app by (auto; cbn; reflexivity). cbn [app].
    assert (E : (110 =? 110) = true) by reflexivity. rewrite E.
    change (117 :: 108 :: 108 :: rest) with ([117; 108; 108] ++ rest). apply lit_ok.
  - intros w rest fuel Hw Hr Hf. destruct fuel as [|f]; [lia|]. cbn [ignore_value].
    rewrite skip_ws_app by (auto; cbn; reflexivity). cbn [app].
    assert (E1 : (116 =? 110) = false) by reflexivity. assert (E2 : (116 =? 116) = true) by reflexivity. rewrite E1, E2.
    change (114 :: 117 :: 101 :: rest) with ([114; 117; 101] ++ rest). apply lit_ok.
  - intros w rest fuel Hw Hr Hf. destruct fuel as [|f]; [lia|]. cbn [ignore_value].
    rewrite skip_ws_app by (auto; cbn; reflexivity). cbn [app].
    assert (E1 : (102 =? 110) = false) by reflexivity. assert (E2 : (102 =? 116) = false) by reflexivity.
    assert (E3 : (102 =? 102) = true) by reflexivity. rewrite E1, E2, E3.
    change (97 :: 108 :: 115 :: 101 :: rest) with ([97; 108; 115; 101] ++ rest). apply lit_ok.
  - intros n b Hn w rest fuel Hw Hr Hf. destruct fuel as [|f]; [lia|]. cbn [ignore_value].
    destruct (Gnum_head _ _ Hn) as (c & r & Eb & Hc).
    rewrite skip_ws_app; [|exact Hw|subst b; cbn; unfold is_ws, is_digit in *; lia].
    pose proof (parse_number_G _ _ rest Hn Hr) as Hp. subst b. cbn [app] in *.
    assert (E1 : (c =? 110) = false) by (unfold is_digit in Hc; lia).
    assert (E2 : (c =? 116) = false) by (unfold is_digit in Hc; lia).
    assert (E3 : (c =? 102) = false) by (unfold is_digit in Hc; lia).
    assert (E4 : (c =? 34) = false) by (unfold is_digit in Hc; lia).
    assert (E5 : ((c =? 45) || is_digit c) = true) by (unfold is_digit in *; lia).
    rewrite E1, E2, E3, E4, E5, Hp. reflexivity.
  - intros b Hs w rest fuel Hw Hr Hf. destruct fuel as [|f]; [lia|]. cbn [ignore_value].
    pose proof (skip_string_L b rest (S f) Hs ltac:(lia)) as Hp.
    destruct Hs as (ts & Eb & _). subst b. cbn [app] in *.
    rewrite skip_ws_app; [|exact Hw|cbn; reflexivity].
    destruct Hp as [_ Hp].
    assert (E1 : (34 =? 110) = false) by reflexivity. assert (E2 : (34 =? 116) = false) by reflexivity.
    assert (E3 : (34 =? 102) = false) by reflexivity. assert (E4 : (34 =? 34) = true) by reflexivity.
    rewrite E1, E2, E3, E4. exact Hp.
  - intros w0 Hw0 w rest fuel Hw Hr Hf. destruct fuel as [|f]; [lia|]. cbn [ignore_value].
    rewrite skip_ws_app; [|exact Hw|cbn; reflexivity]. cbn [app].
    assert (E1 : (91 =? 110) = false) by reflexivity. assert (E2 : (91 =? 116) = false) by reflexivity.
    assert (E3 : (91 =? 102) = false) by reflexivity. assert (E4 : (91 =? 34) = false) by reflexivity.
    assert (E5 : ((91 =? 45) || is_digit 91) = false) by reflexivity. assert (E6 : (91 =? 91) = true) by reflexivity.
    rewrite E1, E2, E3, E4, E5, E6. rewrite <- app_assoc. rewrite skip_ws_app; [|exact Hw0|cbn; reflexivity].
    cbn [app]. assert (E7 : (93 =? 93) = true) by reflexivity. rewrite E7. reflexivity.
  - intros w0 b Hw0 He IH w rest fuel Hw Hr Hf. destruct fuel as [|f]; [lia|]. cbn [ignore_value].
    rewrite skip_ws_app; [|exact Hw|cbn; reflexivity]. cbn [app].
    assert (E1 : (91 =? 110) = false) by reflexivity. assert (E2 : (91 =? 116) = false) by reflexivity.
    assert (E3 : (91 =? 102) = false) by reflexivity. assert (E4 : (91 =? 34) = false) by reflexivity.
    assert (E5 : ((91 =? 45) || is_digit 91) = false) by reflexivity. assert (E6 : (91 =? 91) = true) by reflexivity.
    rewrite E1, E2, E3, E4, E5, E6. rewrite <- app_assoc.
    destruct (LE_head _ He) as (c & r & Eb & Hc).
    rewrite skip_ws_app; [|exact Hw0|subst b; cbn; apply vstart_nonws; exact Hc].
    assert (Hlen : (List.length b < f)%nat) by (cbn [List.length] in Hf; rewrite app_length in Hf; lia).
    specialize (IH [] rest f (Forall_nil _) Hlen). cbn [app] in IH.
    subst b. cbn [app] in *. assert (E7 : (c =? 93) = false) by (unfold vstart, is_digit in Hc; lia). rewrite E7. exact IH.
  - intros w0 Hw0 w rest fuel Hw Hr Hf. destruct fuel as [|f]; [lia|]. cbn [ignore_value].
    rewrite skip_ws_app; [|exact Hw|cbn; reflexivity]. cbn [app].
    assert (E1 : (123 =? 110) = false) by reflexivity. assert (E2 : (123 =? 116) = false) by reflexivity.
    assert (E3 : (123 =? 102) = false) by reflexivity. assert (E4 : (123 =? 34) = false) by reflexivity.
    assert (E5 : ((123 =? 45) || is_digit 123) = false) by reflexivity. assert (E6 : (123 =? 91) = false) by reflexivity.
    assert (E6' : (123 =? 123) = true) by reflexivity.
    rewrite E1, E2, E3, E4, E5, E6, E6'. rewrite <- app_assoc. rewrite skip_ws_app; [|exact Hw0|cbn; reflexivity].
    cbn [app]. assert (E7 : (125 =? 125) = true) by reflexivity. rewrite E7. reflexivity.
  - intros w0 b Hw0 Hm IH w rest fuel Hw Hr Hf. destruct fuel as [|f]; [lia|]. cbn [ignore_value].
    rewrite skip_ws_app; [|exact Hw|cbn; reflexivity]. cbn [app].
    assert (E1 : (123 =? 110) = false) by reflexivity. assert (E2 : (123 =? 116) = false) by reflexivity.
    assert (E3 : (123 =? 102) = false) by reflexivity. assert (E4 : (123 =? 34) = false) by reflexivity.
    assert (E5 : ((123 =? 45) || is_digit 123) = false) by reflexivity. assert (E6 : (123 =? 91) = false) by reflexivity.
    assert (E6' : (123 =? 123) = true) by reflexivity.
    rewrite E1, E2, E3, E4, E5, E6, E6'. rewrite <- app_assoc.
    destruct (LM_head _ Hm) as (r & Eb).
    rewrite skip_ws_app; [|exact Hw0|subst b; cbn; reflexivity].
    assert (Hlen : (List.length b < f)%nat) by (cbn [List.length] in Hf; rewrite app_length in Hf; lia).
    specialize (IH [] rest f (Forall_nil _) Hlen). cbn [app] in IH.
    subst b. cbn [app] in *. assert (E7 : (34 =? 125) = false) by reflexivity. rewrite E7. exact IH.
  - intros b w2 Hv IHv Hw2 w rest fuel Hw Hf. destruct fuel as [|f]; [lia|]. cbn [ignore_elems].
    rewrite <- !app_assoc. lens Hf.
    rewrite (IHv w (w2 ++ [93] ++ rest) f Hw); [|apply ok_rest_sep; [exact Hw2|tauto]|lia].
    rewrite skip_ws_app; [|exact Hw2|cbn; reflexivity]. cbn [app].
    assert (E1 : (93 =? 44) = false) by reflexivity. assert (E2 : (93 =? 93) = true) by reflexivity. rewrite E1, E2. reflexivity.
  - intros b w2 w1 b' Hv IHv Hw2 Hw1 He IHe w rest fuel Hw Hf.
    destruct fuel as [|f]; [lia|]. cbn [ignore_elems].
    rewrite <- !app_assoc. lens Hf.
    rewrite (IHv w (w2 ++ (44 :: w1 ++ b') ++ rest) f Hw); [|apply ok_rest_sep; [exact Hw2|tauto]|lia].
    rewrite skip_ws_app; [|exact Hw2|cbn; reflexivity]. cbn [app].
    assert (E1 : (44 =? 44) = true) by reflexivity. rewrite E1.
    destruct (L_head _ Hv) as (c0 & r0 & Eb0 & _). assert (1 <= List.length b)%nat by (subst b; cbn; lia).
    rewrite <- app_assoc. apply (IHe w1 rest f Hw1). lia.
  - intros kb w2 w3 b w4 Hk Hw2 Hw3 Hv IHv Hw4 w rest fuel Hw Hf.
    destruct fuel as [|f]; [lia|]. cbn [ignore_members].
    rewrite <- !app_assoc. lens Hf.
    pose proof (skip_string_L kb (w2 ++ (58 :: w3 ++ b ++ w4 ++ [125]) ++ rest) (S f) Hk ltac:(lia)) as Hp.
    destruct Hk as (ts & Ekb & Hbody). subst kb. cbn [app] in *.
    rewrite skip_ws_app; [|exact Hw|cbn; reflexivity].
    assert (E0 : (34 =? 34) = true) by reflexivity. rewrite E0.
    destruct Hp as [_ Hp]. rewrite <- !app_assoc in Hp. cbn [app] in Hp. rewrite <- !app_assoc. cbn [app]. rewrite Hp.
    rewrite skip_ws_app; [|exact Hw2|cbn; reflexivity].
    assert (E1 : (58 =? 58) = true) by reflexivity. rewrite E1.
    rewrite (IHv w3 (w4 ++ 125 :: rest) f Hw3); [|apply ok_rest_sep; [exact Hw4|tauto]|lia].
    rewrite skip_ws_app; [|exact Hw4|cbn; reflexivity]. cbn [app].
    assert (E2 : (125 =? 44) = false) by reflexivity. assert (E3 : (125 =? 125) = true) by reflexivity. rewrite E2, E3. reflexivity.
  - intros kb w2 w3 b w4 w1 b' Hk Hw2 Hw3 Hv IHv Hw4 Hw1 Hm IHm w rest fuel Hw Hf.
    destruct fuel as [|f]; [lia|]. cbn [ignore_members].
    rewrite <- !app_assoc. lens Hf.
    pose proof (skip_string_L kb (w2 ++ (58 :: w3 ++ b ++ w4 ++ 44 :: w1 ++ b') ++ rest) (S f) Hk ltac:(lia)) as Hp.
    destruct Hk as (ts & Ekb & Hbody). subst kb. cbn [app] in *.
    rewrite skip_ws_app; [|exact Hw|cbn; reflexivity].
    assert (E0 : (34 =? 34) = true) by reflexivity. rewrite E0.
    destruct Hp as [_ Hp]. rewrite <- !app_assoc in Hp. cbn [app] in Hp. rewrite <- !app_assoc. cbn [app]. rewrite Hp.
    rewrite skip_ws_app; [|exact Hw2|cbn; reflexivity].
    assert (E1 : (58 =? 58) = true) by reflexivity. rewrite E1.
    rewrite (IHv w3 (w4 ++ 44 :: (w1 ++ b') ++ rest) f Hw3); [|apply ok_rest_sep; [exact Hw4|tauto]|lia].
    rewrite skip_ws_app; [|exact Hw4|cbn; reflexivity]. cbn [app].
    assert (E2 : (44 =? 44) = true) by reflexivity. rewrite E2.
    rewrite <- app_assoc. apply (IHm w1 rest f Hw1). lia.
Qed.

Theorem scanner_skips_every_sentence b : L b ->
  forall w rest fuel, WS w -> ok_rest rest -> (List.length b < fuel)%nat -> ignore_value fuel (w ++ b ++ rest) = Some rest.
Proof. intros l. exact (proj1 scanner_complete b l). Qed.

(* ---------- following a struct: sentences of a schema ---------- *)
(* a value where the struct has a field is read strictly (and, if that field is a struct written as an object or in the
   positional form, by its own schema); the value of any other key may be ANY sentence of the lenient grammar and is
   represented by JNull *)
Definition hd_schema (fs : list (string * schema)) : schema := match fs with (_, sc) :: _ => sc | [] => SLeaf end.

Inductive GS : schema -> json -> bytes -> Prop :=
| GS_leaf t b : G t b -> GS SLeaf t b
| GS_other fs t b : G t b -> (forall r, b <> 123 :: r) -> (forall r, b <> 91 :: r) -> GS (SStruct fs) t b
| GS_obj0 fs w : WS w -> GS (SStruct fs) (JObj []) (123 :: w ++ [125])
| GS_obj fs l w b : WS w -> GSM fs l b -> GS (SStruct fs) (JObj l) (123 :: w ++ b)
| GS_arr0 fs w : WS w -> GS (SStruct fs) (JArr []) (91 :: w ++ [93])
| GS_arr fs l w b : WS w -> GSE fs l b -> GS (SStruct fs) (JArr l) (91 :: w ++ b)
with GSM : list (string * schema) -> list (string * json) -> bytes -> Prop :=
| GSM_last fs k kb w2 w3 v b w4 : Gstr k kb -> WS w2 -> WS w3 -> GSV fs (str_of k) v b -> WS w4 ->
    GSM fs [(str_of k, v)] (kb ++ w2 ++ 58 :: w3 ++ b ++ w4 ++ [125])
| GSM_cons fs k kb w2 w3 v b w4 w1 l b' : Gstr k kb -> WS w2 -> WS w3 -> GSV fs (str_of k) v b -> WS w4 -> WS w1 ->
    GSM fs l b' -> GSM fs ((str_of k, v) :: l) (kb ++ w2 ++ 58 :: w3 ++ b ++ w4 ++ 44 :: w1 ++ b')
with GSV : list (string * schema) -> string -> json -> bytes -> Prop :=
| GSV_known fs k sc v b : field_of k fs = Some sc -> GS sc v b -> GSV fs k v b
| GSV_unknown fs k b : field_of k fs = None -> L b -> GSV fs k JNull b
with GSE : list (string * schema) -> list json -> bytes -> Prop :=
| GSE_last fs v b w2 : GS (hd_schema fs) v b -> WS w2 -> GSE fs [v] (b ++ w2 ++ [93])
| GSE_cons fs v b w2 w1 l b' : GS (hd_schema fs) v b -> WS w2 -> WS w1 -> GSE (tl fs) l b' ->
    GSE fs (v :: l) (b ++ w2 ++ 44 :: w1 ++ b').

Scheme GS_mut := Induction for GS Sort Prop
  with GSM_mut := Induction for GSM Sort Prop
  with GSV_mut := Induction for GSV Sort Prop
  with GSE_mut := Induction for GSE Sort Prop.
Combined Scheme GS_all_ind from GS_mut, GSM_mut, GSV_mut, GSE_mut.

Definition RS (sc : schema) (t : json) (b : bytes) (_ : GS sc t b) : Prop :=
  forall w rest fuel, WS w -> ok_rest rest -> (List.length b < fuel)%nat ->
    parse_sch fuel sc (w ++ b ++ rest) = Some (t, rest).
Definition RM (fs : list (string * schema)) (l : list (string * json)) (b : bytes) (_ : GSM fs l b) : Prop :=
  forall w rest acc fuel, WS w -> (List.length b < fuel)%nat ->
    sch_members fuel fs (w ++ b ++ rest) acc = Some (JObj (rev acc ++ l), rest).
Definition RV (fs : list (string * schema)) (k : string) (v : json) (b : bytes) (_ : GSV fs k v b) : Prop :=
  forall w rest f, WS w -> ok_rest rest -> (List.length b < f)%nat ->
    match field_of k fs with
    | Some sc' => parse_sch f sc' (w ++ b ++ rest)
    | None => match ignore_value (S f) (w ++ b ++ rest) with Some r3 => Some (JNull, r3) | None => None end
    end = Some (v, rest).
Definition RE (fs : list (string * schema)) (l : list json) (b : bytes) (_ : GSE fs l b) : Prop :=
  forall w rest acc fuel, WS w -> (List.length b < fuel)%nat ->
    sch_elems fuel fs (w ++ b ++ rest) acc = Some (JArr (rev acc ++ l), rest).

Lemma GSM_head fs l b : GSM fs l b -> exists r, b = 34 :: r.
Proof.
  destruct 1 as [fs k kb w2 w3 v b w4 (ts & -> & _) _ _ _ _|fs k kb w2 w3 v b w4 w1 l b' (ts & -> & _) _ _ _ _ _ _]; cbn [app]; eauto.
Qed.

Lemma GS_head sc t b : GS sc t b -> exists c z, b = c :: z /\ vstart c.
Proof.
  destruct 1 as [t b g|fs t b g _ _|fs w _|fs l w b _ _|fs w _|fs l w b _ _]; try (apply (G_head _ _ g));
    eexists _, _; (split; [reflexivity|]); unfold vstart; tauto.
Qed.
Lemma GSE_head fs l b : GSE fs l b -> exists c z, b = c :: z /\ vstart c.
Proof.
  destruct 1 as [fs v b w2 Hv _|fs v b w2 w1 l b' Hv _ _ _]; destruct (GS_head _ _ _ Hv) as (c & z & -> & Hc); cbn [app]; eauto.
Qed.

Theorem schema_reader_complete :
  (forall sc t b (g : GS sc t b), RS sc t b g) /\
  (forall fs l b (g : GSM fs l b), RM fs l b g) /\
  (forall fs k v b (g : GSV fs k v b), RV fs k v b g) /\
  (forall fs l b (g : GSE fs l b), RE fs l b g).
Proof.
  apply GS_all_ind; unfold RS, RM, RV, RE.
  - (* leaf *) intros t b g w rest fuel Hw Hr Hf. destruct fuel as [|f]; [lia|]. cbn [parse_sch].
    apply strict_reader_reads_every_sentence; assumption.
  - (* neither an object nor an array *) intros fs t b g Hno Hna w rest fuel Hw Hr Hf. destruct fuel as [|f]; [lia|]. cbn [parse_sch].
    destruct (G_head _ _ g) as (c & r & Eb & Hc).
    rewrite skip_ws_app; [|exact Hw|subst b; cbn; apply vstart_nonws; exact Hc].
    assert (E : (c =? 123) = false).
    { destruct (N.eqb_spec c 123) as [->|]; [|reflexivity]. exfalso. eapply Hno. exact Eb. }
    assert (E' : (c =? 91) = false).
    { destruct (N.eqb_spec c 91) as [->|]; [|reflexivity]. exfalso. eapply Hna. exact Eb. }
    pose proof (strict_reader_reads_every_sentence t b g w rest (S f) Hw Hr Hf) as Hp.
    subst b. cbn [app] in *. rewrite E, E'. exact Hp.
  - (* {} *) intros fs w0 Hw0 w rest fuel Hw Hr Hf. destruct fuel as [|f]; [lia|]. cbn [parse_sch].
    rewrite skip_ws_app; [|exact Hw|cbn; reflexivity]. cbn [app].
    assert (E : (123 =? 123) = true) by reflexivity. rewrite E.
    rewrite <- app_assoc. rewrite skip_ws_app; [|exact Hw0|cbn; reflexivity].
    cbn [app]. assert (E7 : (125 =? 125) = true) by reflexivity. rewrite E7. reflexivity.
  - (* {members} *) intros fs l w0 b Hw0 Hm IH w rest fuel Hw Hr Hf. destruct fuel as [|f]; [lia|]. cbn [parse_sch].
    rewrite skip_ws_app; [|exact Hw|cbn; reflexivity]. cbn [app].
    assert (E : (123 =? 123) = true) by reflexivity. rewrite E. rewrite <- app_assoc.
    destruct (GSM_head _ _ _ Hm) as (r & Eb).
    rewrite skip_ws_app; [|exact Hw0|subst b; cbn; reflexivity].
    assert (Hlen : (List.length b < f)%nat) by (cbn [List.length] in Hf; rewrite app_length in Hf; lia).
    specialize (IH [] rest [] f (Forall_nil _) Hlen). cbn [app rev] in IH.
    subst b. cbn [app] in *. assert (E7 : (34 =? 125) = false) by reflexivity. rewrite E7. exact IH.
  - (* [] *) intros fs w0 Hw0 w rest fuel Hw Hr Hf. destruct fuel as [|f]; [lia|]. cbn [parse_sch].
    rewrite skip_ws_app; [|exact Hw|cbn; reflexivity]. cbn [app].
    assert (E : (91 =? 123) = false) by reflexivity. assert (E' : (91 =? 91) = true) by reflexivity. rewrite E, E'.
    rewrite <- app_assoc. rewrite skip_ws_app; [|exact Hw0|cbn; reflexivity].
    cbn [app]. assert (E7 : (93 =? 93) = true) by reflexivity. rewrite E7. reflexivity.
  - (* [elements] *) intros fs l w0 b Hw0 He IH w rest fuel Hw Hr Hf. destruct fuel as [|f]; [lia|]. cbn [parse_sch].
    rewrite skip_ws_app; [|exact Hw|cbn; reflexivity]. cbn [app].
    assert (E : (91 =? 123) = false) by reflexivity. assert (E' : (91 =? 91) = true) by reflexivity. rewrite E, E'.
    rewrite <- app_assoc.
    destruct (GSE_head _ _ _ He) as (c & r & Eb & Hc).
    rewrite skip_ws_app; [|exact Hw0|subst b; cbn; apply vstart_nonws; exact Hc].
    assert (Hlen : (List.length b < f)%nat) by (cbn [List.length] in Hf; rewrite app_length in Hf; lia).
    specialize (IH [] rest [] f (Forall_nil _) Hlen). cbn [app rev] in IH.
    subst b. cbn [app] in *. assert (E7 : (c =? 93) = false) by (unfold vstart, is_digit in Hc; lia). rewrite E7. exact IH.
  - (* last member *) intros fs k kb w2 w3 v b w4 Hk Hw2 Hw3 Hv IHv Hw4 w rest acc fuel Hw Hf.
    destruct fuel as [|f]; [lia|]. cbn [sch_members].
    rewrite <- !app_assoc. lens Hf.
    pose proof (parse_string_G k kb (w2 ++ (58 :: w3 ++ b ++ w4 ++ [125]) ++ rest) (S f) Hk ltac:(lia)) as Hp.
    destruct Hk as (ts & Ekb & Hbody & Hval). subst kb. cbn [app] in *.
    rewrite skip_ws_app; [|exact Hw|cbn; reflexivity].
    assert (E0 : (34 =? 34) = true) by reflexivity. rewrite E0.
    destruct Hp as [_ Hp]. rewrite <- !app_assoc in Hp. cbn [app] in Hp. rewrite <- !app_assoc. cbn [app]. rewrite Hp.
    rewrite skip_ws_app; [|exact Hw2|cbn; reflexivity].
    assert (E1 : (58 =? 58) = true) by reflexivity. rewrite E1.
    rewrite (IHv w3 (w4 ++ 125 :: rest) f Hw3); [|apply ok_rest_sep; [exact Hw4|tauto]|lia].
    rewrite skip_ws_app; [|exact Hw4|cbn; reflexivity]. cbn [app].
    assert (E2 : (125 =? 44) = false) by reflexivity. assert (E3 : (125 =? 125) = true) by reflexivity. rewrite E2, E3.
    cbn [rev]. reflexivity.
  - (* member, comma, more *) intros fs k kb w2 w3 v b w4 w1 l b' Hk Hw2 Hw3 Hv IHv Hw4 Hw1 Hm IHm w rest acc fuel Hw Hf.
    destruct fuel as [|f]; [lia|]. cbn [sch_members].
    rewrite <- !app_assoc. lens Hf.
    pose proof (parse_string_G k kb (w2 ++ (58 :: w3 ++ b ++ w4 ++ 44 :: w1 ++ b') ++ rest) (S f) Hk ltac:(lia)) as Hp.
    destruct Hk as (ts & Ekb & Hbody & Hval). subst kb. cbn [app] in *.
    rewrite skip_ws_app; [|exact Hw|cbn; reflexivity].
    assert (E0 : (34 =? 34) = true) by reflexivity. rewrite E0.
    destruct Hp as [_ Hp]. rewrite <- !app_assoc in Hp. cbn [app] in Hp. rewrite <- !app_assoc. cbn [app]. rewrite Hp.
    rewrite skip_ws_app; [|exact Hw2|cbn; reflexivity].
    assert (E1 : (58 =? 58) = true) by reflexivity. rewrite E1.
    rewrite (IHv w3 (w4 ++ 44 :: (w1 ++ b') ++ rest) f Hw3); [|apply ok_rest_sep; [exact Hw4|tauto]|lia].
    rewrite skip_ws_app; [|exact Hw4|cbn; reflexivity]. cbn [app].
    assert (E2 : (44 =? 44) = true) by reflexivity. rewrite E2.
    rewrite <- app_assoc. rewrite (IHm w1 rest ((str_of k, v) :: acc) f Hw1) by lia.
    cbn [rev]. rewrite <- app_assoc. reflexivity.
  - (* value of a known key *) intros fs k sc v b Hk g IH w rest f Hw Hr Hf. rewrite Hk. apply IH; assumption.
  - (* value of an unknown key *) intros fs k b Hk l w rest f Hw Hr Hf. rewrite Hk.
    rewrite (scanner_skips_every_sentence b l w rest (S f) Hw Hr) by lia. reflexivity.
  - (* last element *) intros fs v b w2 Hv IHv Hw2 w rest acc fuel Hw Hf. destruct fuel as [|f]; [lia|]. cbn [sch_elems].
    rewrite <- !app_assoc. lens Hf. fold (hd_schema fs).
    rewrite (IHv w (w2 ++ [93] ++ rest) f Hw); [|apply ok_rest_sep; [exact Hw2|tauto]|lia].
    rewrite skip_ws_app; [|exact Hw2|cbn; reflexivity]. cbn [app].
    assert (E1 : (93 =? 44) = false) by reflexivity. assert (E2 : (93 =? 93) = true) by reflexivity. rewrite E1, E2.
    cbn [rev]. reflexivity.
  - (* element, comma, more *) intros fs v b w2 w1 l b' Hv IHv Hw2 Hw1 He IHe w rest acc fuel Hw Hf.
    destruct fuel as [|f]; [lia|]. cbn [sch_elems].
    rewrite <- !app_assoc. lens Hf. fold (hd_schema fs).
    rewrite (IHv w (w2 ++ (44 :: w1 ++ b') ++ rest) f Hw); [|apply ok_rest_sep; [exact Hw2|tauto]|lia].
    rewrite skip_ws_app; [|exact Hw2|cbn; reflexivity]. cbn [app].
    assert (E1 : (44 =? 44) = true) by reflexivity. rewrite E1.
    destruct (GS_head _ _ _ Hv) as (c0 & r0 & Eb0 & _). assert (1 <= List.length b)%nat by (subst b; cbn; lia).
    rewrite <- app_assoc. rewrite (IHe w1 rest (v :: acc) f Hw1) by lia.
    cbn [rev]. rewrite <- app_assoc. reflexivity.
Qed.

(* the whole body of a response: the schema reader, then nothing but white space *)
Theorem parse_body_complete sc t b w w' : GS sc t b -> WS w -> WS w' -> parse_body sc (w ++ b ++ w') = Some t.
Proof.
  intros g Hw Hw'. unfold parse_body.
  rewrite (proj1 schema_reader_complete sc t b g w w').
  - rewrite (skip_ws_all _ Hw'). reflexivity.
  - exact Hw.
  - destruct Hw' as [|c r Hc _]; cbn; auto.
  - unfold fuel_for. rewrite !app_length. lia.
Qed.

Theorem resp_of_body_complete t b w w' : GS resp_schema t b -> WS w -> WS w' ->
  resp_of_body (w ++ b ++ w') = resp_of_json t.
Proof. intros g Hw Hw'. unfold resp_of_body. rewrite (parse_body_complete _ _ _ _ _ g Hw Hw'). reflexivity. Qed.

(* every strict sentence is a lenient one: what could be read can also be skipped *)
Theorem G_is_L :
  (forall t b, G t b -> L b) /\ (forall l b, GE l b -> LE b) /\ (forall l b, GM l b -> LM b).
Proof.
  apply G_GE_GM_ind; intros; try (constructor; assumption); try (econstructor; eassumption).
  - constructor. eapply Gstr_Lstr. eassumption.
  - constructor; try assumption. eapply Gstr_Lstr. eassumption.
  - constructor; try assumption. eapply Gstr_Lstr. eassumption.
Qed.
