(* JsonStateExist.v — every in-range state has a file text (an object: '{' ... '}') that is read back as that state. *)
From UV Require Import Base Codec Model Json JsonProofs JsonText JsonTextProofs JsonTextSound JsonTextExist JsonState JsonStateProofs.
From Coq Require Import ZifyN ZifyBool ZifyNat Lia.
Local Open Scope N_scope.
Arguments N.eqb : simpl never.
Arguments String.eqb : simpl never.

Definition meta_utf8 (m : meta) : Prop := utf8_valid (bytes_of (m_hash m)) = true /\ ostring_utf8 (m_sig m).
Definition ometa_utf8 (o : option meta) : Prop := match o with Some m => meta_utf8 m | None => True end.
Definition pstate_utf8 (s : pstate) : Prop := ometa_utf8 (lb s) /\ ometa_utf8 (nb s) /\ ometa_utf8 (cb s).

Lemma GS_meta m : meta_in_range m -> meta_utf8 m -> exists b, GS meta_schema (json_of_meta m) b.
Proof.
  intros [Hn Hz] [Hh Hs].
  destruct (Gnum_usize _ Hn) as (nb & Hnb). destruct (Gnum_usize _ Hz) as (zb & Hzb).
  destruct (G_string _ Hh) as (hb & Hhb). destruct (G_ostring _ Hs) as (sb & Hsb & _).
  destruct (GSM_exists [("number", SLeaf); ("size", SLeaf); ("hash", SLeaf); ("signature", SLeaf)]%string
              [(bytes_of "number", JNum (JInt false (m_num m)), nb); (bytes_of "size", JNum (JInt false (m_size m)), zb);
               (bytes_of "hash", JStr (m_hash m), hb); (bytes_of "signature", json_of_ostring (m_sig m), sb)]
              ltac:(discriminate)) as (b & Hb).
  { repeat constructor; cbn [fst snd]; try key_ok; rewrite str_of_bytes_of.
    - eapply GSV_known; [reflexivity|]. constructor. constructor. exact Hnb.
    - eapply GSV_known; [reflexivity|]. constructor. constructor. exact Hzb.
    - eapply GSV_known; [reflexivity|]. constructor. exact Hhb.
    - eapply GSV_known; [reflexivity|]. constructor. exact Hsb. }
  exists (123 :: [] ++ b). unfold json_of_meta, meta_schema.
  cbn [map fst snd] in Hb. rewrite !str_of_bytes_of in Hb. apply GS_obj; [apply WSnil|exact Hb].
Qed.

Lemma GS_ometa o : ometa_in_range o -> ometa_utf8 o -> exists b, GS meta_schema (json_of_ometa o) b.
Proof.
  destruct o as [m|]; intros Hr Hu; cbn [json_of_ometa].
  - apply GS_meta; assumption.
  - exists [110; 117; 108; 108]. apply GS_other; [constructor|intros r0; discriminate|intros r0; discriminate].
Qed.

Lemma GSM_last_brace fs l b : GSM fs l b -> exists y, b = y ++ [125].
Proof.
  induction 1 as [fs k kb w2 w3 v b w4 _ _ _ _ _|fs k kb w2 w3 v b w4 w1 l b' _ _ _ _ _ _ _ (y & ->)].
  - exists (kb ++ w2 ++ 58 :: w3 ++ b ++ w4). rewrite <- !app_assoc. cbn [app]. rewrite <- !app_assoc. reflexivity.
  - exists (kb ++ w2 ++ 58 :: w3 ++ b ++ w4 ++ 44 :: w1 ++ y). rewrite <- !app_assoc. cbn [app]. rewrite <- !app_assoc. cbn [app].
    rewrite <- !app_assoc. reflexivity.
Qed.

Theorem state_has_a_file s : pstate_in_range s -> pstate_utf8 s ->
  exists P, pstate_of_body P = Some s /\ (exists x, skip_ws P = 123 :: x) /\ (exists y, P = y ++ [125]).
Proof.
  intros (H1 & H2 & H3 & H4 & H5) (U1 & U2 & U3).
  destruct (GS_ometa _ H1 U1) as (b1 & Hb1). destruct (GS_ometa _ H2 U2) as (b2 & Hb2). destruct (GS_ometa _ H3 U3) as (b3 & Hb3).
  destruct (G_nums _ H4) as (b4 & Hb4).
  destruct (GSM_exists [("last_booted_patch", meta_schema); ("next_boot_patch", meta_schema);
                        ("currently_booting_patch", meta_schema); ("known_bad_patches", SLeaf)]%string
              [(bytes_of "last_booted_patch", json_of_ometa (lb s), b1); (bytes_of "next_boot_patch", json_of_ometa (nb s), b2);
               (bytes_of "currently_booting_patch", json_of_ometa (cb s), b3);
               (bytes_of "known_bad_patches", JArr (map (fun n => JNum (JInt false n)) (bad s)), b4)]
              ltac:(discriminate)) as (b & Hb).
  { repeat constructor; cbn [fst snd]; try key_ok; rewrite str_of_bytes_of.
    - eapply GSV_known; [reflexivity|]. exact Hb1.
    - eapply GSV_known; [reflexivity|]. exact Hb2.
    - eapply GSV_known; [reflexivity|]. exact Hb3.
    - eapply GSV_known; [reflexivity|]. constructor. exact Hb4. }
  cbn [map fst snd] in Hb. rewrite !str_of_bytes_of in Hb.
  assert (Hg : GS pstate_schema (json_of_pstate s) (123 :: [] ++ b)).
  { unfold json_of_pstate, pstate_schema. apply GS_obj; [apply WSnil|exact Hb]. }
  exists ([] ++ (123 :: [] ++ b) ++ []). split; [|split].
  - apply pstate_of_body_iff. exists [], (123 :: [] ++ b), [], (json_of_pstate s).
    repeat split; try apply WSnil; try assumption. apply pstate_roundtrip. repeat split; assumption.
  - cbn [app]. rewrite app_nil_r. cbn [skip_ws]. assert (E : is_ws 123 = false) by reflexivity. rewrite E. eauto.
  - destruct (GSM_last_brace _ _ _ Hb) as (y & ->). exists (123 :: y). cbn [app]. rewrite app_nil_r. reflexivity.
Qed.

(* together with JsonTorn: every state has a file text of which every strict prefix is garbage *)
