(* Calls.v — call-level theorems: repeated init (C14), requests (C20), release change (C08),
   hash gate (C05), network failures (C06), bad key (C07), events (C17), reclamation (C19). *)
From UV Require Import Base Codec Model PMLemmas Inv Ban Handout.
Arguments N.eqb : simpl never.
Arguments N.ltb : simpl never.

Section Calls.
Variable sha : bytes -> bytes.
Variable sigok : string -> string -> string -> bool.
Variable zdec : bytes -> bytes.
Variable base : bytes.

Notation validate := (validate sha sigok).
Notation fall_back := (fall_back sha sigok).
Notation next_boot := (next_boot sha sigok).
Notation boot_failure := (boot_failure sha sigok).
Notation rollback_loop := (rollback_loop sha sigok).
Notation cs_next := (cs_next sha sigok).
Notation cs_start := (cs_start sha sigok).
Notation cs_failure := (cs_failure sha sigok).
Notation cs_init_recover := (cs_init_recover sha sigok).
Notation cs_rollback := (cs_rollback sha sigok).
Notation should_install := (should_install sha sigok).
Notation do_check := (do_check sha sigok).
Notation do_update := (do_update sha sigok zdec base).
Notation step := (step sha sigok zdec base).
Notation run := (run sha sigok zdec base).
Notation inflate := (inflate zdec base).
Notation hash_ok := (hash_ok sha).

Lemma cs_success_no_check c d q : ~ In (NCheck q) (snd (cs_success c d)).
Proof.
  unfold Model.cs_success. destruct (cb (load_p (norm c d))) as [b|]; [|intros []].
  destruct (boot_success (norm c d) (load_p (norm c d))). cbn.
  destruct (numeq _ _); intros H; [destruct H|destruct H as [H|[]]; discriminate].
Qed.

Local Opaque Model.do_check Model.do_update Model.cs_next Model.cs_success Model.cs_failure
      Model.cs_start Model.cs_current Model.cs_init_recover.

(* ================= C14: repeated initialisation is inert ================= *)
Theorem init_inert w c relv y p :
  w_cfg w = Some c -> step w (OInit relv y p) = (w, RBool false, []).
Proof.
  intros H. destruct w as [d cf]. cbn in *. subst cf.
  destruct (cfg_of relv y); cbn; auto. destruct p; cbn; auto.
Qed.

(* I-cfg: no call other than a process end changes the configuration in use *)
Theorem cfg_preserved w o c :
  w_cfg w = Some c -> o <> OKill -> w_cfg (fst (fst (step w o))) = Some c.
Proof.
  intros H Hk. destruct w as [d cf]. cbn in H. subst cf.
  destruct o; cbn; try congruence;
    try (destruct (cfg_of relv y); cbn; auto; destruct paths_ok; cbn; auto; fail);
    repeat match goal with
           | |- context [let '(_, _) := ?x in _] => destruct x
           end; reflexivity.
Qed.

Local Transparent Model.do_check Model.do_update Model.cs_next Model.cs_success Model.cs_failure
      Model.cs_start Model.cs_current Model.cs_init_recover.

(* ================= C20: what a request carries ================= *)
Definition chan_of (o : op) : option (option string) :=
  match o with OCheck ch _ => Some ch | OUpdate ch _ _ => Some ch | _ => None end.

Lemma do_check_requests c d ch r q :
  In (NCheck q) (snd (do_check c d ch r)) -> q = mk_request c ch.
Proof.
  unfold Model.do_check. destruct r as [rs|]; cbn [snd].
  - destruct (r_patch rs) as [p|]; cbn [snd].
    + match goal with |- context [should_install c ?x (p_num p)] =>
        destruct (should_install c x (p_num p)) end; cbn [snd]. intros [H|[]]. congruence.
    + intros [H|[]]. congruence.
  - intros [H|[]]. congruence.
Qed.

Lemma in_events_check evs q0 q : In (NCheck q) (map NEvent evs ++ [NCheck q0]) -> q = q0.
Proof.
  intros H. apply in_app_or in H. destruct H as [H|[H|[]]]; [|congruence].
  apply in_map_iff in H. destruct H as [e [E _]]. discriminate.
Qed.

Lemma do_update_requests c d ch r dl q :
  In (NCheck q) (snd (do_update c d ch r dl)) -> q = mk_request c ch.
Proof.
  unfold Model.do_update. cbn [cs_copy_events].
  set (evs := firstn 3 (evq (load_s c (norm c d)))).
  set (d1 := cs_clear_events c (norm c d)).
  destruct r as [rs|]; cbn [fst snd]; [|apply in_events_check].
  destruct (negb (r_avail rs)); cbn [fst snd]; [apply in_events_check|].
  destruct (r_patch rs) as [p|]; cbn [fst snd]; [|apply in_events_check].
  match goal with |- context [should_install c ?x (p_num p)] => destruct (should_install c x (p_num p)) as [d3 sh] end. destruct sh; cbn [fst snd]; try apply in_events_check.
  assert (Hd : In (NCheck q) ((map NEvent evs ++ [NCheck (mk_request c ch)]) ++ [NDownload (p_url p)]) ->
               q = mk_request c ch).
  { intros H. apply in_app_or in H. destruct H as [H|[H|[]]]; [|discriminate].
    eapply in_events_check; eauto. }
  destruct dl as [bdl|]; cbn [fst snd]; auto.
  destruct (inflate bdl) as [out|]; cbn [fst snd]; auto.
  destruct (hash_ok out (p_hash p)); cbn [fst snd]; auto.
  destruct (cs_install c d3 p out) as [d4 st]. destruct st; cbn [fst snd]; auto.
  intros H. apply in_app_or in H. destruct H as [H|[H|[]]]; [auto|discriminate].
Qed.

Local Opaque Model.do_check Model.do_update Model.cs_next Model.cs_success Model.cs_failure
      Model.cs_start Model.cs_current Model.cs_init_recover.

Theorem request_formula w o c q :
  w_cfg w = Some c -> In (NCheck q) (snd (step w o)) ->
  exists ch, chan_of o = Some ch /\
             q = {| q_app := c_app c;
                    q_chan := match ch with Some x => x | None => c_chan c end;
                    q_rel := c_rel c |}.
Proof.
  intros H. destruct w as [d cf]. cbn in H. subst cf.
  destruct o as [relv y pk| | | | | | | | |ch r|ch r dl|g]; cbn.
  - destruct (cfg_of relv y); cbn; [destruct pk; cbn|]; intros [].
  - intros [].
  - destruct (cs_next c d); intros [].
  - destruct (cs_next c d); intros [].
  - destruct (cs_current c d); intros [].
  - intros [].
  - pose proof (cs_success_no_check c d q) as Hn. destruct (cs_success c d) as [d1 l]. cbn in *.
    intros H. contradiction.
  - destruct (cs_failure c d); intros [].
  - intros [].
  - pose proof (do_check_requests c d ch r q) as H.
    destruct (do_check c d ch r) as [[? ?] l]. cbn in *. intros Hi. exists ch. split; [reflexivity|].
    rewrite (H Hi). reflexivity.
  - pose proof (do_update_requests c d ch r dl q) as H.
    destruct (do_update c d ch r dl) as [[? ?] l]. cbn in *. intros Hi. exists ch. split; [reflexivity|].
    rewrite (H Hi). reflexivity.
  - intros [].
Qed.

Local Transparent Model.do_check Model.do_update Model.cs_next Model.cs_success Model.cs_failure
      Model.cs_start Model.cs_current Model.cs_init_recover.

(* the channel configured at init follows the documented precedence *)
Theorem cfg_channel relv app chan key auto c :
  cfg_of relv (YOk app chan key auto) = Some c ->
  c_app c = app /\ c_rel c = relv /\ c_key c = key /\
  c_chan c = match chan with Some x => x | None => "stable"%string end.
Proof. cbn. intros H. injection H as <-. cbn. auto. Qed.

(* no leak: along any history without a process end, every request of every call is built from the
   configuration of the first init and that call's own channel argument *)
Fixpoint all_requests_ok (c : cfg) (w : world) (ops : list op) : Prop :=
  match ops with
  | [] => True
  | o :: rest =>
      (forall q, In (NCheck q) (snd (step w o)) ->
                 exists ch, chan_of o = Some ch /\
                            q = {| q_app := c_app c;
                                   q_chan := match ch with Some x => x | None => c_chan c end;
                                   q_rel := c_rel c |}) /\
      all_requests_ok c (fst (fst (step w o))) rest
  end.

Theorem requests_never_leak c ops : forall w,
  w_cfg w = Some c -> ~ In OKill ops -> all_requests_ok c w ops.
Proof.
  induction ops as [|o rest IH]; intros w H Hk; cbn; auto. split.
  - intros q. apply request_formula. exact H.
  - apply IH.
    + apply cfg_preserved; auto. intros ->. apply Hk. left. reflexivity.
    + intros Hi. apply Hk. right. exact Hi.
Qed.

(* ================= C08: release change ================= *)
Definition other_release (relv : string) (d : disk) : Prop :=
  forall s, sj d = JOk s -> rel s <> relv.

Lemma norm_other c d : other_release (c_rel c) d -> norm c d = fresh_disk (c_rel c).
Proof.
  unfold norm, other_release. intros H. destruct (sj d) as [| |s]; auto.
  destruct (String.eqb_spec (rel s) (c_rel c)) as [E|E]; auto. exfalso. eapply H; eauto.
Qed.

Theorem release_change_init d relv y c :
  cfg_of relv y = Some c -> other_release relv d ->
  step {| w_disk := d; w_cfg := None |} (OInit relv y true) =
  ({| w_disk := fresh_disk relv; w_cfg := Some c |}, RBool true, []).
Proof.
  intros Hc Ho. cbn. rewrite Hc. cbn.
  pose proof (cfg_of_rel _ _ _ Hc) as Er.
  unfold Model.cs_init_recover. rewrite norm_other by (rewrite Er; exact Ho). rewrite Er. reflexivity.
Qed.

Theorem fresh_queries c :
  cs_current c (fresh_disk (c_rel c)) = (fresh_disk (c_rel c), None) /\
  cs_next c (fresh_disk (c_rel c)) = (fresh_disk (c_rel c), None).
Proof.
  unfold Model.cs_current, Model.cs_next.
  rewrite norm_id by (eexists; split; reflexivity). split; reflexivity.
Qed.

(* ================= C05 / C06: the hash gate and failures before it ================= *)
Lemma cs_install_result c d p out d' :
  cs_install c d p out = (d', UInstalled) ->
  nb (load_p d') = Some {| m_num := p_num p; m_size := blen out; m_hash := p_hash p; m_sig := p_sig p |} /\
  arts d' (p_num p) = Some (AFile out).
Proof.
  unfold Model.cs_install. destruct (inb (p_num p) (bad (load_p (norm c d)))); [discriminate|].
  unfold add_patch. intros H. injection H as <-. split; [reflexivity|].
  cbn. destruct (nb (load_p (norm c d))) as [x|]; [destruct (lb (load_p (norm c d))) as [l|]|]; cbn;
    try apply upd_art_same.
  destruct (negb (N.eqb (m_num l) (m_num x)) && negb (N.eqb (m_num x) (p_num p)) &&
            negb (numeq (cb (load_p (norm c d))) (m_num x))) eqn:E; cbn; try apply upd_art_same.
  apply andb_prop in E. destruct E as [E _]. apply andb_prop in E. destruct E as [_ E].
  apply negb_true_iff, N.eqb_neq in E.
  rewrite upd_art_other by congruence. apply upd_art_same.
Qed.

Lemma cs_install_status c d p out : snd (cs_install c d p out) = UInstalled \/ snd (cs_install c d p out) = UBadPatch.
Proof. unfold Model.cs_install. destruct (inb _ _); cbn; auto. Qed.

Theorem installed_only_if_verified c d ch r dl d' log :
  do_update c d ch r dl = (d', UInstalled, log) ->
  exists rs p bdl out,
    r = Some rs /\ r_avail rs = true /\ r_patch rs = Some p /\ dl = Some bdl /\
    inflate bdl = Some out /\ hash_ok out (p_hash p) = true /\
    nb (load_p d') = Some {| m_num := p_num p; m_size := blen out; m_hash := p_hash p; m_sig := p_sig p |} /\
    arts d' (p_num p) = Some (AFile out).
Proof.
  unfold Model.do_update. cbn [cs_copy_events].
  destruct r as [rs|]; [|discriminate].
  destruct (r_avail rs) eqn:Ea; cbn [negb]; [|discriminate].
  destruct (r_patch rs) as [p|] eqn:Ep; [|discriminate].
  match goal with |- context [should_install c ?x (p_num p)] => destruct (should_install c x (p_num p)) as [d3 sh] end. destruct sh; try discriminate.
  destruct dl as [bdl|]; [|discriminate].
  destruct (inflate bdl) as [out|] eqn:Ei; [|discriminate].
  destruct (hash_ok out (p_hash p)) eqn:Eh; [|discriminate].
  destruct (cs_install c d3 p out) as [d4 st] eqn:Ec.
  intros H. assert (st = UInstalled) by congruence. subst st. assert (d4 = d') by congruence. subst d4.
  destruct (cs_install_result c d3 p out d' Ec) as [H1 H2].
  exists rs, p, bdl, out. repeat split; auto.
Qed.

Lemma do_update_not_haderror c d ch r dl : snd (fst (do_update c d ch r dl)) <> UHadError.
Proof.
  unfold Model.do_update. cbn [cs_copy_events].
  destruct r as [rs|]; cbn [fst snd]; [|discriminate].
  destruct (negb (r_avail rs)); cbn [fst snd]; [discriminate|].
  destruct (r_patch rs) as [p|]; cbn [fst snd]; [|discriminate].
  match goal with |- context [should_install c ?x (p_num p)] => destruct (should_install c x (p_num p)) as [d3 sh] end.
  destruct sh; cbn [fst snd]; try discriminate.
  destruct dl as [bdl|]; cbn [fst snd]; [|discriminate].
  destruct (inflate bdl) as [out|]; cbn [fst snd]; [|discriminate].
  destruct (hash_ok out (p_hash p)); cbn [fst snd]; [|discriminate].
  destruct (cs_install_status c d3 p out) as [E|E]; destruct (cs_install c d3 p out) as [d4 st];
    cbn in *; subst st; discriminate.
Qed.

(* a download that does not inflate or does not match its hash leaves exactly the disk a failed
   download leaves, and is never reported installed *)
Theorem rejected_download_frame c d ch rs bdl p :
  r_patch rs = Some p ->
  inflate bdl = None \/ (exists out, inflate bdl = Some out /\ hash_ok out (p_hash p) = false) ->
  fst (fst (do_update c d ch (Some rs) (Some bdl))) = fst (fst (do_update c d ch (Some rs) None)) /\
  snd (fst (do_update c d ch (Some rs) (Some bdl))) = snd (fst (do_update c d ch (Some rs) None)) /\
  snd (fst (do_update c d ch (Some rs) (Some bdl))) <> UInstalled.
Proof.
  intros Ep Hbad. unfold Model.do_update. cbn [cs_copy_events].
  destruct (negb (r_avail rs)); cbn [fst snd]; [repeat split; discriminate|].
  rewrite Ep.
  match goal with |- context [should_install c ?x (p_num p)] => destruct (should_install c x (p_num p)) as [d3 sh] end. destruct sh; cbn [fst snd]; try (repeat split; discriminate).
  destruct Hbad as [-> | [out [-> Hh]]]; [|rewrite Hh]; cbn [fst snd]; repeat split; discriminate.
Qed.

(* failures before the gate: what can change on disk is only what the listed rollbacks and the
   routine re-validation of the selection change; status is never "installed" *)
Definition after_rollbacks (c : cfg) (d : disk) (rs : resp) : disk :=
  match r_rb rs with
  | Some l => cs_rollback c (cs_clear_events c (norm c d)) l
  | None => cs_clear_events c (norm c d)
  end.

Theorem check_failure_frame c d ch dl :
  do_update c d ch None dl =
  (cs_clear_events c (norm c d), UError,
   map NEvent (firstn 3 (evq (load_s c (norm c d)))) ++ [NCheck (mk_request c ch)]).
Proof. reflexivity. Qed.

Theorem contradictory_response_frame c d ch rs dl :
  r_avail rs = true -> r_patch rs = None ->
  fst (do_update c d ch (Some rs) dl) = (after_rollbacks c d rs, UError).
Proof.
  intros Ea Ep. unfold Model.do_update, after_rollbacks. cbn [cs_copy_events]. rewrite Ea, Ep. reflexivity.
Qed.

Theorem download_failure_frame c d ch rs p :
  r_avail rs = true -> r_patch rs = Some p ->
  fst (fst (do_update c d ch (Some rs) None)) = fst (should_install c (after_rollbacks c d rs) (p_num p)) /\
  snd (fst (do_update c d ch (Some rs) None)) <> UInstalled.
Proof.
  intros Ea Ep. unfold Model.do_update, after_rollbacks. cbn [cs_copy_events]. rewrite Ea, Ep. cbn [negb].
  match goal with |- context [should_install c ?x (p_num p)] => destruct (should_install c x (p_num p)) as [d3 sh] end. destruct sh; cbn; split; auto; discriminate.
Qed.

(* clearing events and re-validating a valid (or empty) selection change neither the patch state nor
   any artifact: so with no rollback listed, a failed update leaves them exactly as they were *)
Definition settled (key : option string) (d : disk) : Prop :=
  match nb (load_p d) with Some m => validate key d m = true | None => True end.

Lemma cs_next_settled c d :
  stable (c_rel c) d -> settled (c_key c) d -> fst (cs_next c d) = d.
Proof.
  intros S H. unfold Model.cs_next. rewrite (norm_id c d S). unfold settled in H.
  destruct (nb (load_p d)) as [m|] eqn:E.
  - rewrite (next_boot_valid sha sigok _ _ _ m E H). reflexivity.
  - rewrite (next_boot_none sha sigok _ _ _ E). reflexivity.
Qed.

Lemma should_install_settled c d n :
  stable (c_rel c) d -> settled (c_key c) d -> fst (should_install c d n) = d.
Proof.
  intros S H. unfold Model.should_install. cbn. rewrite (norm_id c d S).
  destruct (inb n (bad (load_p d))); cbn; auto.
  pose proof (cs_next_settled c d S H) as E. destruct (cs_next c d) as [d2 r]. cbn in E. subst d2.
  destruct r as [k|]; [destruct (N.eqb k n)|]; reflexivity.
Qed.

Theorem failed_update_unchanged c d ch rs dl :
  stable (c_rel c) d -> settled (c_key c) d -> r_rb rs = None ->
  snd (fst (do_update c d ch (Some rs) dl)) <> UInstalled ->
  let d' := fst (fst (do_update c d ch (Some rs) dl)) in
  load_p d' = load_p d /\ arts d' = arts d.
Proof.
  intros S H Er. unfold Model.do_update, after_rollbacks. cbn [cs_copy_events]. rewrite Er.
  rewrite (norm_id c d S).
  set (d1 := cs_clear_events c d).
  assert (S1 : stable (c_rel c) d1) by (apply (cs_clear_events_BM c d S)).
  assert (L1 : load_p d1 = load_p d /\ arts d1 = arts d).
  { unfold d1, Model.cs_clear_events. rewrite (norm_id c d S). split; reflexivity. }
  assert (H1 : settled (c_key c) d1).
  { unfold settled. destruct L1 as [-> La]. unfold settled in H. destruct (nb (load_p d)) as [m|]; auto.
    rewrite <- H. apply validate_arts. rewrite La. reflexivity. }
  destruct (negb (r_avail rs)); cbn [fst snd]; auto.
  destruct (r_patch rs) as [p|]; cbn [fst snd]; auto.
  pose proof (should_install_settled c d1 (p_num p) S1 H1) as E3.
  destruct (should_install c d1 (p_num p)) as [d3 sh]. cbn in E3. subst d3.
  destruct sh; cbn [fst snd]; auto.
  destruct dl as [bdl|]; cbn [fst snd]; auto.
  destruct (inflate bdl) as [out|]; cbn [fst snd]; auto.
  destruct (hash_ok out (p_hash p)); cbn [fst snd]; auto.
  destruct (cs_install c d1 p out) as [d4 st] eqn:Ec. cbn [fst snd].
  intros Hs. destruct (cs_install_status c d1 p out) as [E|E]; rewrite Ec in E; cbn in E; [contradiction|].
  subst st. unfold Model.cs_install in Ec. rewrite (norm_id c d1 S1) in Ec.
  destruct (inb (p_num p) (bad (load_p d1))).
  - injection Ec as <-. exact L1.
  - destruct (add_patch d1 (load_p d1) (p_num p) out (p_hash p) (p_sig p)). discriminate.
Qed.

(* ... and a later update against a healthy server installs *)
Theorem healthy_update_installs c d ch rs p bdl out :
  stable (c_rel c) d -> settled (c_key c) d ->
  r_rb rs = None -> r_avail rs = true -> r_patch rs = Some p ->
  ~ In (p_num p) (bad (load_p d)) -> onum (nb (load_p d)) <> Some (p_num p) ->
  inflate bdl = Some out -> hash_ok out (p_hash p) = true ->
  snd (fst (do_update c d ch (Some rs) (Some bdl))) = UInstalled.
Proof.
  intros S H Er Ea Ep Hb Hn Ei Eh. unfold Model.do_update. cbn [cs_copy_events]. rewrite Er, Ea, Ep.
  rewrite (norm_id c d S). cbn [negb].
  set (d1 := cs_clear_events c d).
  assert (S1 : stable (c_rel c) d1) by (apply (cs_clear_events_BM c d S)).
  assert (L1 : load_p d1 = load_p d /\ arts d1 = arts d).
  { unfold d1, Model.cs_clear_events. rewrite (norm_id c d S). split; reflexivity. }
  assert (H1 : settled (c_key c) d1).
  { unfold settled. destruct L1 as [-> La]. unfold settled in H. destruct (nb (load_p d)) as [m|]; auto.
    rewrite <- H. apply validate_arts. rewrite La. reflexivity. }
  unfold Model.should_install. cbn [cs_is_bad]. rewrite (norm_id c d1 S1).
  destruct L1 as [L1 _].
  assert (Eb : inb (p_num p) (bad (load_p d1)) = false).
  { rewrite L1. destruct (inb (p_num p) (bad (load_p d))) eqn:E; auto. apply inb_In in E. contradiction. }
  rewrite Eb.
  pose proof (cs_next_settled c d1 S1 H1) as E3.
  assert (Er3 : snd (cs_next c d1) = onum (nb (load_p d1))).
  { unfold Model.cs_next. rewrite (norm_id c d1 S1). unfold settled in H1.
    destruct (nb (load_p d1)) as [m|] eqn:E.
    - rewrite (next_boot_valid sha sigok _ _ _ m E H1). reflexivity.
    - rewrite (next_boot_none sha sigok _ _ _ E). reflexivity. }
  destruct (cs_next c d1) as [d2 r]. cbn in E3, Er3. subst d2 r. rewrite L1.
  assert (Esh : (match onum (nb (load_p d)) with
                 | Some k => if N.eqb k (p_num p) then (d1, ShAlready) else (d1, ShOk)
                 | None => (d1, ShOk) end) = (d1, ShOk)).
  { destruct (onum (nb (load_p d))) as [k|]; auto. destruct (N.eqb_spec k (p_num p)); auto. congruence. }
  rewrite Esh. rewrite Ei, Eh.
  unfold Model.cs_install. rewrite (norm_id c d1 S1), Eb. reflexivity.
Qed.

(* ================= C07: an unusable key rejects every patch ================= *)
Theorem bad_key_rejects c d k :
  c_key c = Some k -> (forall m s, sigok k m s = false) -> snd (cs_next c d) = None.
Proof.
  intros Hk Hbad.
  assert (V : forall dd m, validate (c_key c) dd m = false).
  { intros dd m. unfold Model.validate. rewrite Hk. destruct (arts dd (m_num m)) as [[|b]|]; auto.
    destruct (m_sig m); [rewrite Hbad|]; apply andb_false_r. }
  unfold Model.cs_next, Model.next_boot. destruct (nb (load_p (norm c d))) as [m|] eqn:E; [|reflexivity].
  rewrite V.
  pose proof (fall_back_target sha sigok (c_key c) (norm c d) (load_p (norm c d)) (m_num m)) as H.
  destruct (fall_back (c_key c) (norm c d) (load_p (norm c d)) (m_num m)) as [d1 s1]. cbn in *.
  rewrite E in H. cbn in H. rewrite N.eqb_refl in H. rewrite (H eq_refl).
  destruct (lb (load_p (norm c d))) as [l|]; auto. rewrite V, andb_false_r. reflexivity.
Qed.

(* ================= C17: events ================= *)
Theorem success_event c d :
  snd (cs_success c d) =
  match cb (load_p (norm c d)) with
  | Some b => if numeq (lb (load_p (norm c d))) (m_num b) then []
              else [NEvent (mk_event c EvInstallSuccess (m_num b) MsgNone)]
  | None => []
  end.
Proof.
  unfold Model.cs_success. destruct (cb (load_p (norm c d))) as [b|] eqn:E; auto.
  unfold boot_success. rewrite E. reflexivity.
Qed.

Definition evq_of (c : cfg) (d : disk) : list event := evq (load_s c d).

Theorem failure_queues_one c d b :
  cb (load_p (norm c d)) = Some b ->
  evq_of c (fst (cs_failure c d)) = evq_of c (norm c d) ++ [mk_event c EvInstallFailure (m_num b) MsgEngine].
Proof.
  intros H. unfold Model.cs_failure. rewrite H.
  pose proof (boot_failure_sj sha sigok (c_key c) (norm c d) (load_p (norm c d)) (m_num b)) as Hs.
  destruct (boot_failure (c_key c) (norm c d) (load_p (norm c d)) (m_num b)) as [d1 s1]. cbn in *.
  unfold evq_of, queue_event, load_s. cbn. rewrite Hs. reflexivity.
Qed.

Theorem crash_detection_queues_one c d b :
  cb (load_p (norm c d)) = Some b ->
  evq_of c (cs_init_recover c d) = evq_of c (norm c d) ++ [mk_event c EvInstallFailure (m_num b) MsgInit].
Proof.
  intros H. unfold Model.cs_init_recover. rewrite H.
  pose proof (boot_failure_sj sha sigok (c_key c) (norm c d) (load_p (norm c d)) (m_num b)) as Hs.
  destruct (boot_failure (c_key c) (norm c d) (load_p (norm c d)) (m_num b)) as [d1 s1]. cbn in *.
  unfold evq_of, queue_event, load_s. cbn. rewrite Hs. reflexivity.
Qed.

(* an update first sends the three oldest queued events, in order, then the check request; the queue
   is empty afterwards *)
Theorem update_flushes c d ch r dl :
  exists rest,
    snd (do_update c d ch r dl) =
      map NEvent (firstn 3 (evq_of c (norm c d))) ++ NCheck (mk_request c ch) :: rest /\
    (forall e, In (NEvent e) rest -> e = mk_event c EvDownload (e_num e) MsgNone /\
                                     snd (fst (do_update c d ch r dl)) = UInstalled) /\
    (snd (fst (do_update c d ch r dl)) = UInstalled ->
     exists p, In (NEvent (mk_event c EvDownload p MsgNone)) rest /\
               onum (nb (load_p (fst (fst (do_update c d ch r dl))))) = Some p).
Proof.
  unfold Model.do_update, evq_of. cbn [cs_copy_events].
  set (evs := firstn 3 (evq (load_s c (norm c d)))).
  set (q := mk_request c ch).
  assert (Triv : forall (dd : disk) (st : ustatus), st <> UInstalled ->
            exists rest, snd (dd, st, map NEvent evs ++ [NCheck q]) = map NEvent evs ++ NCheck q :: rest /\
              (forall e, In (NEvent e) rest -> e = mk_event c EvDownload (e_num e) MsgNone /\ snd (fst (dd, st, map NEvent evs ++ [NCheck q])) = UInstalled) /\
              (snd (fst (dd, st, map NEvent evs ++ [NCheck q])) = UInstalled -> exists p, In (NEvent (mk_event c EvDownload p MsgNone)) rest /\ onum (nb (load_p (fst (fst (dd, st, map NEvent evs ++ [NCheck q]))))) = Some p)).
  { intros dd st Hst. exists []. cbn [fst snd]. split; [reflexivity|].
    split; [intros e []|intros E; contradiction]. }
  destruct r as [rs|]; [|apply Triv; discriminate].
  destruct (negb (r_avail rs)); [apply Triv; discriminate|].
  destruct (r_patch rs) as [p|]; [|apply Triv; discriminate].
  match goal with |- context [should_install c ?x (p_num p)] => destruct (should_install c x (p_num p)) as [d3 sh] end. destruct sh; try (apply Triv; discriminate).
  assert (Triv2 : forall (dd : disk) (st : ustatus), st <> UInstalled ->
            exists rest, snd (dd, st, (map NEvent evs ++ [NCheck q]) ++ [NDownload (p_url p)]) = map NEvent evs ++ NCheck q :: rest /\
              (forall e, In (NEvent e) rest -> e = mk_event c EvDownload (e_num e) MsgNone /\ snd (fst (dd, st, (map NEvent evs ++ [NCheck q]) ++ [NDownload (p_url p)])) = UInstalled) /\
              (snd (fst (dd, st, (map NEvent evs ++ [NCheck q]) ++ [NDownload (p_url p)])) = UInstalled -> exists p0, In (NEvent (mk_event c EvDownload p0 MsgNone)) rest /\ onum (nb (load_p (fst (fst (dd, st, (map NEvent evs ++ [NCheck q]) ++ [NDownload (p_url p)]))))) = Some p0)).
  { intros dd st Hst. exists [NDownload (p_url p)]. cbn [fst snd]. rewrite <- app_assoc.
    split; [reflexivity|]. split; [intros e [H|[]]; discriminate|intros E; contradiction]. }
  destruct dl as [bdl|]; [|apply Triv2; discriminate].
  destruct (inflate bdl) as [out|]; [|apply Triv2; discriminate].
  destruct (hash_ok out (p_hash p)); [|apply Triv2; discriminate].
  destruct (cs_install c d3 p out) as [d4 st] eqn:Ec.
  destruct (cs_install_status c d3 p out) as [E|E]; rewrite Ec in E; cbn in E; subst st.
  - exists [NDownload (p_url p); NEvent (mk_event c EvDownload (p_num p) MsgNone)]. cbn.
    rewrite <- !app_assoc. cbn. split; [reflexivity|]. split.
    + intros e [H|[H|[]]]; [discriminate|]. injection H as <-. cbn. auto.
    + intros _. exists (p_num p). split; [right; left; reflexivity|].
      destruct (cs_install_result c d3 p out d4 Ec) as [H1 _]. rewrite H1. reflexivity.
  - apply Triv2. discriminate.
Qed.

Theorem update_empties_queue c d ch r dl :
  evq_of c (fst (fst (do_update c d ch r dl))) = [].
Proof.
  assert (BMq : forall d1 d2, BM (c_rel c) d1 d2 -> True) by auto.
  unfold Model.do_update. cbn [cs_copy_events].
  set (d1 := cs_clear_events c (norm c d)).
  assert (E1 : evq_of c d1 = []) by reflexivity.
  assert (S1 : stable (c_rel c) d1).
  { unfold d1. apply (cs_clear_events_BM c (norm c d)). apply norm_stable. }
  (* every later critical section leaves state.json alone *)
  assert (Ksj : forall d2, sj d2 = sj d1 -> evq_of c d2 = []).
  { intros d2 E. unfold evq_of, load_s. rewrite E. exact E1. }
  destruct r as [rs|]; cbn [fst]; auto.
  set (d2 := match r_rb rs with Some l => cs_rollback c d1 l | None => d1 end).
  assert (E2 : sj d2 = sj d1).
  { unfold d2. destruct (r_rb rs) as [l|]; auto. unfold Model.cs_rollback.
    rewrite rollback_loop_sj. rewrite (norm_id c d1 S1). reflexivity. }
  assert (S2 : stable (c_rel c) d2) by (eapply stable_of_sj; eauto).
  destruct (negb (r_avail rs)); cbn [fst]; auto.
  destruct (r_patch rs) as [p|]; cbn [fst]; auto.
  assert (E3 : sj (fst (should_install c d2 (p_num p))) = sj d1).
  { unfold Model.should_install. cbn [cs_is_bad]. rewrite (norm_id c d2 S2).
    destruct (inb (p_num p) (bad (load_p d2))); cbn; auto.
    unfold Model.cs_next. rewrite (norm_id c d2 S2).
    pose proof (next_boot_sj sha sigok (c_key c) d2 (load_p d2)) as Hs.
    destruct (next_boot (c_key c) d2 (load_p d2)) as [[dd ss] rr]. cbn in *.
    destruct rr as [k|]; [destruct (N.eqb k (p_num p))|]; cbn; congruence. }
  destruct (should_install c d2 (p_num p)) as [d3 sh]. cbn in E3.
  assert (S3 : stable (c_rel c) d3) by (eapply stable_of_sj; [|exact S1]; auto).
  destruct sh; cbn [fst]; auto.
  destruct dl as [bdl|]; cbn [fst]; auto.
  destruct (inflate bdl) as [out|]; cbn [fst]; auto.
  destruct (hash_ok out (p_hash p)); cbn [fst]; auto.
  destruct (cs_install c d3 p out) as [d4 st] eqn:Ec. cbn [fst]. apply Ksj.
  unfold Model.cs_install in Ec. rewrite (norm_id c d3 S3) in Ec.
  destruct (inb (p_num p) (bad (load_p d3))); [injection Ec as <- _; auto|].
  injection Ec as <- _. unfold add_patch. cbn.
  destruct (nb (load_p d3)); [destruct (lb (load_p d3))|]; cbn; auto.
  match goal with |- context [if ?x then _ else _] => destruct x end; cbn; auto.
Qed.

(* ================= C19: reclamation post-conditions ================= *)
Theorem success_reclaims c d b k :
  cb (load_p (norm c d)) = Some b -> N.lt k (m_num b) ->
  arts (fst (cs_success c d)) k <> None -> numeq (nb (load_p (fst (cs_success c d)))) k = true.
Proof.
  intros H Hk. unfold Model.cs_success. rewrite H. unfold boot_success. rewrite H. cbn.
  apply N.ltb_lt in Hk. rewrite Hk. cbn. destruct (numeq (nb (load_p (norm c d))) k); cbn; auto;
    try (intros Hc; contradiction).
Qed.

Theorem failure_reclaims c d b :
  cb (load_p (norm c d)) = Some b -> arts (fst (cs_failure c d)) (m_num b) = None.
Proof.
  intros H. unfold Model.cs_failure. rewrite H. unfold Model.boot_failure.
  match goal with |- context [fall_back ?k ?dd ?ss ?n] =>
    pose proof (fall_back_deletes sha sigok k dd ss n) as Hd; destruct (fall_back k dd ss n) end.
  cbn in *. exact Hd.
Qed.

Theorem crash_detection_reclaims c d b :
  cb (load_p (norm c d)) = Some b -> arts (cs_init_recover c d) (m_num b) = None.
Proof.
  intros H. unfold Model.cs_init_recover. rewrite H. unfold Model.boot_failure.
  match goal with |- context [fall_back ?k ?dd ?ss ?n] =>
    pose proof (fall_back_deletes sha sigok k dd ss n) as Hd; destruct (fall_back k dd ss n) end.
  cbn in *. exact Hd.
Qed.

(* a never-booted pending patch superseded by an install while an earlier patch is last good *)
Theorem install_reclaims_superseded c d p out x l :
  stable (c_rel c) d -> ~ In (p_num p) (bad (load_p d)) ->
  nb (load_p d) = Some x -> lb (load_p d) = Some l ->
  m_num l <> m_num x -> m_num x <> p_num p -> numeq (cb (load_p d)) (m_num x) = false ->
  arts (fst (cs_install c d p out)) (m_num x) = None /\
  arts (fst (cs_install c d p out)) (m_num l) =
    (if N.eqb (m_num l) (p_num p) then Some (AFile out) else arts d (m_num l)).
Proof.
  intros S Hb Hx Hl H1 H2 H3. unfold Model.cs_install. rewrite (norm_id c d S).
  destruct (inb (p_num p) (bad (load_p d))) eqn:E; [apply inb_In in E; contradiction|].
  unfold add_patch. rewrite Hx, Hl, H3. cbn.
  apply N.eqb_neq in H1, H2. rewrite H1, H2. cbn. split.
  - apply upd_art_same.
  - apply N.eqb_neq in H1. rewrite upd_art_other by auto. unfold upd_art. reflexivity.
Qed.

Theorem release_change_reclaims c d k :
  other_release (c_rel c) d -> arts (norm c d) k = None.
Proof. intros H. rewrite norm_other by auto. reflexivity. Qed.


(* ================= C13: every call returns a value of its documented domain ================= *)
Definition in_domain (o : op) (x : out) : Prop :=
  match o with
  | OInit _ _ _ | OAuto | OCheck _ _ => exists b, x = RBool b
  | ONextNum | OCurNum => exists n, x = RNum n
  | ONextPath => exists r, x = RPath r
  | OUpdate _ _ _ => x = RStatus (-1) \/ x = RStatus 0 \/ x = RStatus 1 \/ x = RStatus 3
  | _ => x = RUnit
  end.

Local Opaque Model.do_check Model.do_update Model.cs_next Model.cs_success Model.cs_failure
      Model.cs_start Model.cs_current Model.cs_init_recover.

Theorem step_in_domain w o : in_domain o (snd (fst (step w o))).
Proof.
  destruct w as [d cf].
  destruct o as [relv y pk| | | | | | | | |ch r|ch r dl|g]; cbn.
  - destruct (cfg_of relv y); cbn; [destruct pk; cbn; [destruct cf; cbn|]|]; eauto.
  - reflexivity.
  - destruct cf as [c|]; cbn; [destruct (cs_next c d)|]; cbn; eauto.
  - destruct cf as [c|]; cbn; [destruct (cs_next c d)|]; cbn; eauto.
  - destruct cf as [c|]; cbn; [destruct (cs_current c d)|]; cbn; eauto.
  - destruct cf as [c|]; reflexivity.
  - destruct cf as [c|]; cbn; [destruct (cs_success c d)|]; reflexivity.
  - destruct cf as [c|]; cbn; [destruct (cs_failure c d)|]; reflexivity.
  - destruct cf as [c|]; cbn; eauto.
  - destruct cf as [c|]; cbn; [destruct (do_check c d ch r) as [[? ?] ?]|]; cbn; eauto.
  - destruct cf as [c|]; cbn; [|auto].
    pose proof (do_update_not_haderror c d ch r dl) as Hn.
    destruct (do_update c d ch r dl) as [[? u] ?]. destruct u; cbn in *; auto.
    exfalso. apply Hn. reflexivity.
  - reflexivity.
Qed.

End Calls.
