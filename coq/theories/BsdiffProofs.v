(* BsdiffProofs.v — whatever the suffix-array matcher answers (within the buffers), the Matches that
   bidiff's scan loop emits are well formed: they tile the new file, their add ranges lie inside the
   old file, the first starts at old offset 0 — the hypothesis of the round-trip theorem (C16). And
   the loop terminates within |new| + 2 turns. *)
From UV Require Import Base Codec Bsdiff.
From Coq Require Import ZifyN ZifyBool ZifyNat.
Arguments N.add : simpl never.
Arguments N.sub : simpl never.
Arguments N.mul : simpl never.
Arguments N.min : simpl never.
Arguments N.max : simpl never.
Arguments N.ltb : simpl never.
Arguments N.leb : simpl never.
Arguments N.eqb : simpl never.
Arguments N.of_nat : simpl never.
Arguments N.to_nat : simpl never.
Arguments Z.add : simpl never.
Arguments Z.sub : simpl never.
Arguments Z.mul : simpl never.
Arguments Z.of_N : simpl never.
Arguments Z.to_N : simpl never.
Arguments Z.ltb : simpl never.

Section P.
Variable old new : bytes.
Variable lsm : N -> N * N.
Notation olen := (olen old).
Notation nlen := (nlen new).
Hypothesis Hlsm : lsm_bounded old new lsm.

(* ---------- the three scoring loops stay inside their ranges ---------- *)
Lemma lenf_loop_bound n : forall i s sf lf lp ls,
  (0 <= lf <= Z.of_N i)%Z ->
  (0 <= lenf_loop old new n i s sf lf lp ls <= Z.of_N i + Z.of_nat n)%Z.
Proof.
  induction n as [|n IH]; intros i s sf lf lp ls H; cbn [lenf_loop]; [lia|].
  match goal with |- context[if ?c then _ else _] => destruct c end;
  match goal with |- context[if ?c then _ else _] => destruct c end;
  match goal with |- context[lenf_loop _ _ _ ?i' ?a ?b ?c _ _] =>
    specialize (IH i' a b c lp ls) end; lia.
Qed.

Lemma lenb_loop_bound n : forall i s sb lb ps sc,
  1 <= i -> (0 <= lb < Z.of_N i)%Z ->
  (0 <= lenb_loop old new n i s sb lb ps sc < Z.of_N i + Z.of_nat n)%Z \/
  (n = O /\ lenb_loop old new n i s sb lb ps sc = lb).
Proof.
  induction n as [|n IH]; intros i s sb lb ps sc Hi H; cbn [lenb_loop]; [right; auto|].
  left.
  match goal with |- context[if ?c then _ else _] => destruct c end;
  match goal with |- context[if ?c then _ else _] => destruct c end;
  match goal with |- context[lenb_loop _ _ _ ?i' ?a ?b ?c _ _] =>
    destruct (IH i' a b c ps sc) as [?|[? ->]] end; lia.
Qed.

Lemma lens_loop_bound n : forall i s ss ls a b c d,
  ls <= i -> lens_loop old new n i s ss ls a b c d <= i + N.of_nat n.
Proof.
  induction n as [|n IH]; intros i s ss ls a b c d H; cbn [lens_loop]; [lia|].
  match goal with |- context[if ?c then _ else _] => destruct c end;
  match goal with |- context[lens_loop _ _ _ ?i' ?x ?y ?z _ _ _ _] =>
    specialize (IH i' x y z a b c d) end; lia.
Qed.

(* ---------- the inner loop ---------- *)
Lemma inner_spec fuel : forall sc scsc ps ln off score sc' ps' ln' score',
  inner old new lsm fuel sc scsc ps ln off score = Ok (sc', ps', ln', score') ->
  sc <= nlen ->
  sc <= sc' <= nlen /\
  (sc' < nlen -> ps' + ln' <= olen /\ sc' + ln' <= nlen /\ 1 <= ln') /\
  (sc' = nlen -> sc < nlen -> ps' + ln' <= olen) /\
  (sc = nlen -> ps' = ps /\ ln' = ln).
Proof.
  induction fuel as [|f IH]; intros sc scsc ps ln off score sc' ps' ln' score' H Hsc;
    cbn [inner] in H; [discriminate|].
  destruct (sc <? nlen) eqn:E.
  - destruct (lsm sc) as [p l] eqn:El.
    assert (Hb := Hlsm sc ltac:(lia)). rewrite El in Hb. cbn [fst snd] in Hb.
    match type of H with (if ?c then _ else _) = _ => destruct c eqn:Ebr end.
    + inversion H; subst. repeat split; try lia.
    + assert (Hrec : forall sco,
                inner old new lsm f (sc + 1) (N.max scsc (sc + l)) p l off sco = Ok (sc', ps', ln', score') ->
                sc <= sc' <= nlen /\
                (sc' < nlen -> ps' + ln' <= olen /\ sc' + ln' <= nlen /\ 1 <= ln') /\
                (sc' = nlen -> sc < nlen -> ps' + ln' <= olen) /\
                (sc = nlen -> ps' = ps /\ ln' = ln)).
      { intros sco Hr. apply IH in Hr; [|lia]. destruct Hr as (H1 & H2 & H3 & H4).
        split; [lia|]. split; [intros Hlt; apply H2; exact Hlt|]. split; [|intros; lia].
        intros Heq _. destruct (N.eq_dec (sc + 1) nlen) as [E1|E1].
        - destruct (H4 E1) as [-> ->]. lia.
        - apply H3; lia. }
      match type of H with (if ?c then _ else _) = _ => destruct c end.
      * match type of H with (if ?c then _ else _) = _ => destruct c end; [discriminate|].
        eapply Hrec; eassumption.
      * eapply Hrec; eassumption.
  - inversion H; subst. repeat split; try lia.
Qed.

(* ---------- the invariant of the outer loop ---------- *)
Definition I (st : bs) : Prop :=
  lastscan st <= scan st /\ scan st <= nlen /\ lastpos st <= olen /\
  (scan st < nlen -> scan st + len st <= nlen /\ pos st + len st <= olen) /\
  (scan st = nlen -> lastscan st = nlen).

Lemma I_bs0 : I bs0.
Proof. unfold I, bs0; cbn. repeat split; lia. Qed.

(* what one emitted match looks like, and that the saved fields satisfy the invariant again *)
Lemma emit_spec st sc ps ln m st' :
  emit old new st sc ps ln = (m, st') ->
  lastscan st <= sc -> sc <= nlen -> lastpos st <= olen ->
  (sc < nlen -> ps + ln <= olen /\ sc + ln <= nlen) ->
  (ps <= olen) ->
  add_old_start m = lastpos st /\ add_new_start m = lastscan st /\
  add_old_start m + add_length m <= olen /\
  add_new_start m + add_length m <= copy_end m /\
  copy_end m <= nlen /\ lastscan st' = copy_end m /\ I st' /\
  scan st' = sc /\ len st' = ln.
Proof.
  unfold emit. intros H Hls Hsc Hlp Hin Hps.
  set (nf := N.to_nat (N.min (sc - lastscan st) (olen - lastpos st))) in *.
  pose proof (lenf_loop_bound nf 0 0 0 0 (lastpos st) (lastscan st) ltac:(lia)) as Hf.
  set (lf := lenf_loop old new nf 0 0 0 0 (lastpos st) (lastscan st)) in *.
  set (nb := N.to_nat (N.min (sc - lastscan st) ps)) in *.
  pose proof (lenb_loop_bound nb 1 0 0 0 ps sc ltac:(lia) ltac:(lia)) as Hb.
  set (lb := lenb_loop old new nb 1 0 0 0 ps sc) in *.
  set (lenb0 := if nlen <=? sc then 0 else Z.to_N lb) in *.
  assert (Hlenb0 : lenb0 <= sc - lastscan st /\ lenb0 <= ps /\ (sc = nlen -> lenb0 = 0)).
  { unfold lenb0. destruct (nlen <=? sc) eqn:E; [lia|]. destruct Hb as [Hb|[Hb1 Hb2]]; lia. }
  clearbody lenb0. clear Hb lb nb.
  set (lenf0 := Z.to_N lf) in *.
  assert (Hlenf0 : lenf0 <= sc - lastscan st /\ lenf0 <= olen - lastpos st) by lia.
  clearbody lenf0. clear Hf lf nf.
  destruct (sc - lenb0 <? lastscan st + lenf0) eqn:Eov.
  - set (ov := lastscan st + lenf0 - (sc - lenb0)) in *.
    match type of H with context[lens_loop _ _ ?n ?i ?s ?ss ?ls ?a ?b ?c ?d] =>
      pose proof (lens_loop_bound n i s ss ls a b c d ltac:(lia)) as Hl;
      set (lens := lens_loop old new n i s ss ls a b c d) in * end.
    inversion H; subst m st'; clear H. cbn. unfold I; cbn.
    repeat split; try lia.
  - inversion H; subst m st'; clear H. cbn. unfold I; cbn.
    repeat split; try lia.
Qed.

(* ---------- the matches tile the new file ---------- *)
Lemma outer_wf fuel : forall st ms,
  outer old new lsm fuel st = Ok ms -> I st ->
  wf_matches_from old new (lastscan st) ms = true /\
  (forall m r, ms = m :: r -> add_old_start m = lastpos st).
Proof.
  induction fuel as [|f IH]; intros st ms H HI; cbn [outer] in H; [discriminate|].
  destruct HI as (I1 & I2 & I3 & I4 & I5).
  destruct (scan st <? nlen) eqn:E.
  - specialize (I4 ltac:(lia)).
    destruct (inner old new lsm _ _ _ _ _ _ _) as [[[[sc ps] ln] score]| |] eqn:Ein; try discriminate.
    apply inner_spec in Ein; [|lia]. destruct Ein as (J1 & J2 & J3 & J4).
    assert (Hps : ps <= olen).
    { destruct (N.eq_dec sc nlen) as [Es|Es].
      - destruct (N.eq_dec (scan st + len st) nlen) as [E0|E0].
        + destruct (J4 E0) as [-> ->]. lia.
        + specialize (J3 Es ltac:(lia)). lia.
      - specialize (J2 ltac:(lia)). lia. }
    destruct (negb (ln =? score) || (sc =? nlen)) eqn:Eem.
    + destruct (emit old new st sc ps ln) as [m st'] eqn:Eemit.
      destruct (outer old new lsm f st') as [ms'| |] eqn:Eo; try discriminate.
      inversion H; subst ms; clear H.
      apply emit_spec in Eemit; try lia.
      destruct Eemit as (M1 & M2 & M3 & M4 & M5 & M6 & M7 & _).
      destruct (IH _ _ Eo M7) as [W _].
      split.
      * cbn [wf_matches_from]. rewrite M6 in W. rewrite W.
        unfold olen, nlen in *.
        repeat (apply andb_true_intro; split); lia.
      * intros m0 r Hr. inversion Hr; subst. exact M1.
    + assert (Hsc : sc < nlen) by lia. specialize (J2 Hsc).
      match type of H with outer _ _ _ _ ?st2 = _ => specialize (IH st2 ms H) end.
      cbn in IH. apply IH. unfold I; cbn. repeat split; try lia.
  - inversion H; subst ms. split.
    + cbn [wf_matches_from]. unfold nlen in *. specialize (I5 ltac:(lia)). lia.
    + intros m r Hr. discriminate.
Qed.

Theorem bsdiff_wf ms : bsdiff old new lsm = Ok ms -> wf_matches old new ms = true.
Proof.
  intros H. unfold bsdiff in H. destruct (outer_wf _ _ _ H I_bs0) as [W F].
  unfold wf_matches. destruct ms as [|m r].
  - cbn [wf_matches_from] in W. cbn in W. exact W.
  - rewrite (F m r eq_refl). cbn [lastpos lastscan bs0] in *. rewrite W. reflexivity.
Qed.

(* ---------- termination: the fuel of [bsdiff] always suffices ---------- *)
Lemma inner_fuel fuel : forall sc scsc ps ln off score,
  sc <= nlen -> (N.to_nat (nlen - sc) < fuel)%nat ->
  inner old new lsm fuel sc scsc ps ln off score <> OutOfFuel.
Proof.
  induction fuel as [|f IH]; intros sc scsc ps ln off score Hsc Hf; [lia|].
  cbn [inner]. destruct (sc <? nlen) eqn:E; [|discriminate].
  destruct (lsm sc) as [p l].
  match goal with |- (if ?c then _ else _) <> _ => destruct c end; [discriminate|].
  match goal with |- (if ?c then _ else _) <> _ => destruct c end.
  - match goal with |- (if ?c then _ else _) <> _ => destruct c end; [discriminate|].
    apply IH; lia.
  - apply IH; lia.
Qed.

Lemma outer_fuel fuel : forall st,
  I st -> (scan st < nlen -> 1 <= len st \/ scan st = 0) ->
  (N.to_nat (nlen - (scan st + len st)) + 2 <= fuel)%nat \/ (nlen <= scan st /\ (1 <= fuel)%nat) ->
  outer old new lsm fuel st <> OutOfFuel.
Proof.
  induction fuel as [|f IH]; intros st HI Hlen Hf; [lia|].
  cbn [outer]. destruct HI as (I1 & I2 & I3 & I4 & I5).
  destruct (scan st <? nlen) eqn:E; [|discriminate].
  specialize (I4 ltac:(lia)).
  destruct (inner old new lsm _ _ _ _ _ _ _) as [[[[sc ps] ln] score]| |] eqn:Ein;
    [|discriminate|exfalso; revert Ein; apply inner_fuel; lia].
  pose proof Ein as Ein'.
  apply inner_spec in Ein; [|lia]. destruct Ein as (J1 & J2 & J3 & J4).
  assert (Hps : ps <= olen).
  { destruct (N.eq_dec sc nlen) as [Es|Es].
    - destruct (N.eq_dec (scan st + len st) nlen) as [E0|E0].
      + destruct (J4 E0) as [-> ->]. lia.
      + specialize (J3 Es ltac:(lia)). lia.
    - specialize (J2 ltac:(lia)). lia. }
  destruct (negb (ln =? score) || (sc =? nlen)) eqn:Eem.
  - destruct (emit old new st sc ps ln) as [m st'] eqn:Eemit.
    apply emit_spec in Eemit; try lia.
    destruct Eemit as (_ & _ & _ & _ & _ & _ & M7 & M8 & M9).
    assert (Hn : outer old new lsm f st' <> OutOfFuel).
    { apply IH; [exact M7| |].
      - intros Hlt. left. rewrite M8 in Hlt. rewrite M9. apply J2. exact Hlt.
      - rewrite M8, M9. destruct (N.eq_dec sc nlen) as [Es|Es].
        + right. lia.
        + left. specialize (J2 ltac:(lia)). destruct Hf as [Hf|Hf]; [|lia].
          destruct Hlen as [Hl|Hl]; lia. }
    destruct (outer old new lsm f st'); congruence.
  - assert (Hsc : sc < nlen) by lia. specialize (J2 Hsc).
    apply IH.
    + unfold I; cbn. repeat split; try lia.
    + cbn. intros _. left. lia.
    + cbn. left. destruct Hf as [Hf|Hf]; [|lia]. lia.
Qed.

Theorem bsdiff_terminates : bsdiff old new lsm <> OutOfFuel.
Proof.
  unfold bsdiff. apply outer_fuel.
  - exact I_bs0.
  - cbn. intros _. right. reflexivity.
  - left. cbn. lia.
Qed.

End P.
