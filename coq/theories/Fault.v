(* Fault.v — the same operations as Model.v, written over a file-system monad with three semantics
   selected by a plan: no fault, process death at the k-th mutating step (leaving a partial effect
   chosen by [sub]), or failure of the k-th mutating step with execution continuing.  Each function
   mirrors one Rust function step by step, including which errors are propagated ("?"), which are
   ignored ("let _ =") and the BufWriter that swallows a failing flush.  Definitions only. *)
From UV Require Import Base Codec Model.

Inductive plan :=
| NoFault
| CrashAt (k : nat) (sub : N -> N)     (* sub n: 0 = entry n untouched, 1 = half removed, else gone *)
| FailAt (k : nat) (sub : N -> N).     (* for bulk steps: entries with sub n = 0 stay *)

Inductive outcome (A : Type) := Ret (a : A) | Err | Died.
Arguments Ret {A} a. Arguments Err {A}. Arguments Died {A}.

Definition M (A : Type) := plan -> nat -> disk -> outcome A * nat * disk.

Definition ret {A} (a : A) : M A := fun _ c d => (Ret a, c, d).
Definition fail {A} : M A := fun _ c d => (Err, c, d).
Definition bind {A B} (m : M A) (f : A -> M B) : M B :=
  fun pl c d => match m pl c d with
                | (Ret a, c', d') => f a pl c' d'
                | (Err, c', d') => (Err, c', d')
                | (Died, c', d') => (Died, c', d')
                end.
(* `let _ = ...` / `if let Err(e) = ... { log }` *)
Definition ignore_err {A} (m : M A) : M unit :=
  fun pl c d => match m pl c d with
                | (Ret _, c', d') => (Ret tt, c', d')
                | (Err, c', d') => (Ret tt, c', d')
                | (Died, c', d') => (Died, c', d')
                end.
(* run m; remember whether it failed *)
Definition attempt {A} (m : M A) : M bool :=
  fun pl c d => match m pl c d with
                | (Ret _, c', d') => (Ret true, c', d')
                | (Err, c', d') => (Ret false, c', d')
                | (Died, c', d') => (Died, c', d')
                end.
Definition get : M disk := fun _ c d => (Ret d, c, d).

Notation "x <- m ;; f" := (bind m (fun x => f)) (at level 61, m at next level, right associativity).
Notation "m ;;; f" := (bind m (fun _ => f)) (at level 61, right associativity).

(* one mutating system call: full effect f; if the process dies here the partial effect g sub;
   if the call fails: no effect (bulk steps: partial effect g sub) and an error *)
Definition mut (f : disk -> disk) (g : (N -> N) -> disk -> disk) : M unit :=
  fun pl c d =>
    match pl with
    | NoFault => (Ret tt, S c, f d)
    | CrashAt k sub => if Nat.eqb c k then (Died, c, g sub d) else (Ret tt, S c, f d)
    | FailAt k sub => if Nat.eqb c k then (Err, S c, g sub d) else (Ret tt, S c, f d)
    end.
(* the write performed when a BufWriter is dropped: a failure is swallowed, the file keeps garbage *)
Definition mut_swallow (f : disk -> disk) (g : disk -> disk) : M unit :=
  fun pl c d =>
    match pl with
    | NoFault => (Ret tt, S c, f d)
    | CrashAt k sub => if Nat.eqb c k then (Died, c, if N.eqb (sub 0) 0 then d else g d) else (Ret tt, S c, f d)
    | FailAt k _ => if Nat.eqb c k then (Ret tt, S c, g d) else (Ret tt, S c, f d)
    end.

Definition atomic (f : disk -> disk) : M unit := mut f (fun _ d => d).

(* a READ of a file (the open for reading of state.json / patches_state.json): it changes nothing; the process
   may die before it; under FailAt at its index it fails (EIO) and the caller sees "could not be read" *)
Definition rd : M bool :=
  fun pl c d =>
    match pl with
    | NoFault => (Ret true, S c, d)
    | CrashAt k _ => if Nat.eqb c k then (Died, c, d) else (Ret true, S c, d)
    | FailAt k _ => if Nat.eqb c k then (Ret false, S c, d) else (Ret true, S c, d)
    end.

(* not a system call: rewrites the model's representation of the disk without changing its content
   (used so that "delete an entry that is not there" yields literally the term the pure model builds) *)
Definition touch (f : disk -> disk) : M unit := fun _ c d => (Ret tt, c, f d).

(* disk_io::write: File::create (truncate) then the buffered write at drop *)
Definition write_pj (s : pstate) : M unit :=
  atomic (fun d => set_pj d JGarbage) ;;; mut_swallow (fun d => set_pj d (JOk s)) (fun d => set_pj d JGarbage).
Definition write_sj (s : sstate) : M unit :=
  atomic (fun d => set_sj d JGarbage) ;;; mut_swallow (fun d => set_sj d (JOk s)) (fun d => set_sj d JGarbage).

(* delete_patch_artifacts: remove_dir_all(patches/n) = unlink the file, rmdir the directory *)
Definition rm_art (n : N) : M unit :=
  d <- get ;;
  (* the two steps are written as functions of the disk read at entry, so that the final disk is
     literally [del_art d n]; nothing else runs in between *)
  match arts d n with
  | None => touch (fun _ => del_art d n)       (* nothing to delete: same content *)
  | Some ADir => atomic (fun _ => del_art d n)
  | Some (AFile _) =>
      atomic (fun _ => set_arts d (upd_art (arts d) n (Some ADir))) ;;; atomic (fun _ => del_art d n)
  end.

(* partial removal of a set of entries *)
Definition part_remove (elig : N -> bool) (sub : N -> N) (d : disk) : disk :=
  set_arts d (fun k => if elig k then
                         match sub k with
                         | 0 => arts d k
                         | 1 => match arts d k with Some (AFile _) => Some ADir | x => x end
                         | _ => None
                         end
                       else arts d k).

(* reset's remove_dir_all(patches): one bulk step *)
Definition rm_all : M unit :=
  mut (fun d => set_junk (set_arts d (fun _ => None)) false) (part_remove (fun _ => true)).

(* delete_patch_artifacts_older_than: one bulk step; individual failures are ignored *)
Definition sweepM (s : pstate) (n : N) : M unit :=
  ignore_err (mut (fun d => sweep d s n)
                  (part_remove (fun k => N.ltb k n && negb (numeq (nb s) k)))).

Section Oracles.
Variable sha : bytes -> bytes.
Variable sigok : string -> string -> string -> bool.
Variable zdec : bytes -> bytes.
Variable base : bytes.

Notation validate := (validate sha sigok).

(* validate_patch_is_bootable as the file system sees it: with a key configured, an artifact of the recorded size and a
   recorded signature, the artifact is opened and READ (signing::hash_file); if that read fails the patch counts as
   invalid.  Existence and size are stat calls (not faulted). *)
Definition validateM (key : option string) (m : meta) : M bool :=
  d <- get ;;
  match key, arts d (m_num m), m_sig m with
  | Some _, Some (AFile b), Some _ =>
      if N.eqb (blen b) (m_size m) then (ok <- rd ;; ret (ok && validate key d m)) else ret false
  | _, _, _ => ret (validate key d m)
  end.

(* try_fall_back_from_patch: returns the new in-memory state even when the final save fails *)
Definition fall_backM (key : option string) (s : pstate) (badn : N) : M (pstate * bool) :=
  ignore_err (rm_art badn) ;;;
  let nb1 := if numeq (nb s) badn then None else nb s in
  match lb s with
  | Some l =>
      v <- (if negb (N.eqb (m_num l) badn) then validateM key l else ret false) ;;
      if negb (N.eqb (m_num l) badn) && v
      then let s' := {| lb := lb s; nb := match nb1 with None => Some l | Some x => Some x end;
                        cb := cb s; bad := bad s |} in
           ok <- attempt (write_pj s') ;; ret (s', ok)
      else let s' := {| lb := None; nb := nb1; cb := cb s; bad := bad s |} in
           ignore_err (rm_art (m_num l)) ;;; ok <- attempt (write_pj s') ;; ret (s', ok)
  | None =>
      let s' := {| lb := None; nb := nb1; cb := cb s; bad := bad s |} in
      ok <- attempt (write_pj s') ;; ret (s', ok)
  end.

Definition next_bootM (key : option string) (s : pstate) : M (pstate * option N) :=
  match nb s with
  | None => ret (s, None)
  | Some m =>
      v <- validateM key m ;;
      if v then ret (s, Some (m_num m))
      else r <- fall_backM key s (m_num m) ;; ret (fst r, onum (nb (fst r)))
  end.

Definition boot_failureM (key : option string) (s : pstate) (n : N) : M (pstate * bool) :=
  fall_backM key {| lb := lb s; nb := nb s; cb := None; bad := add_bad n (bad s) |} n.

(* add_patch: mkdir patches/n, rename the verified file into place, clean up, save *)
Definition add_patchM (s : pstate) (n : N) (b : bytes) (h : string) (sg : option string) : M pstate :=
  d <- get ;;
  (match arts d n with
   | None => atomic (fun _ => set_arts d (upd_art (arts d) n (Some ADir)))
   | Some _ => ret tt
   end) ;;;
  atomic (fun _ => put_art d n b) ;;;
  let new := {| m_num := n; m_size := blen b; m_hash := h; m_sig := sg |} in
  (match nb s, lb s with
   | Some x, Some l =>
       if negb (N.eqb (m_num l) (m_num x)) && negb (N.eqb (m_num x) n) && negb (numeq (cb s) (m_num x))
       then ignore_err (rm_art (m_num x)) else ret tt
   | _, _ => ret tt
   end) ;;;
  let s' := {| lb := lb s; nb := Some new; cb := cb s; bad := bad s |} in
  write_pj s' ;;; ret s'.

(* UpdaterState::create_new_and_save: reset first; record the release only if the reset succeeded *)
Definition create_newM (r : string) : M unit :=
  rd ;;;      (* PatchManager::new reads patches_state.json; reset() does not look at what it read *)
  ok <- attempt (write_pj pempty ;;; rm_all) ;;
  if ok then ignore_err (write_sj {| rel := r; evq := [] |}) else ret tt.

(* load_or_new_on_error: returns the in-memory serialized state and patch state *)
Definition loadM (c : cfg) : M (sstate * pstate) :=
  okS <- rd ;;                       (* UpdaterState::load: state.json; an unreadable file is "no state" *)
  d <- get ;;
  match (if okS then sj d else JGarbage) with
  | JOk s =>
      okP <- rd ;;                   (* PatchManager::new: patches_state.json, unwrap_or_default *)
      if String.eqb (rel s) (c_rel c) then ret (s, if okP then load_p d else pempty)
      else create_newM (c_rel c) ;;; ret ({| rel := c_rel c; evq := [] |}, pempty)
  | _ => create_newM (c_rel c) ;;; ret ({| rel := c_rel c; evq := [] |}, pempty)
  end.

(* ---------- critical sections ---------- *)
Definition cs_nextM (c : cfg) : M (option N) :=
  st <- loadM c ;; r <- next_bootM (c_key c) (snd st) ;; ret (snd r).

Definition cs_currentM (c : cfg) : M (option N) :=
  st <- loadM c ;;
  ret (match cb (snd st) with Some m => Some (m_num m) | None => onum (lb (snd st)) end).

Definition cs_startM (c : cfg) : M unit :=
  st <- loadM c ;;
  r <- next_bootM (c_key c) (snd st) ;;
  match snd r with
  | Some _ => let s1 := fst r in write_pj {| lb := lb s1; nb := nb s1; cb := nb s1; bad := bad s1 |}
  | None => ret tt
  end.

Definition cs_successM (c : cfg) : M (list netobs) :=
  st <- loadM c ;;
  let s := snd st in
  match cb s with
  | None => ret []
  | Some b =>
      let s' := {| lb := Some b; nb := nb s; cb := None; bad := bad s |} in
      sweepM s' (m_num b) ;;;
      write_pj s' ;;;
      ret (if numeq (lb s) (m_num b) then [] else [NEvent (mk_event c EvInstallSuccess (m_num b) MsgNone)])
  end.

Definition cs_failureM (c : cfg) : M unit :=
  st <- loadM c ;;
  let s := snd st in
  match cb s with
  | None => fail
  | Some b =>
      ignore_err (boot_failureM (c_key c) s (m_num b)) ;;;
      write_sj {| rel := rel (fst st); evq := evq (fst st) ++ [mk_event c EvInstallFailure (m_num b) MsgEngine] |}
  end.

Definition cs_init_recoverM (c : cfg) : M unit :=
  st <- loadM c ;;
  let s := snd st in
  match cb s with
  | None => ret tt
  | Some b =>
      r <- boot_failureM (c_key c) s (m_num b) ;;
      if snd r then
        write_sj {| rel := rel (fst st); evq := evq (fst st) ++ [mk_event c EvInstallFailure (m_num b) MsgInit] |}
      else fail
  end.

Fixpoint rollback_loopM (key : option string) (s : pstate) (l : list N) : M pstate :=
  match l with
  | [] => ret s
  | n :: r => x <- fall_backM key s n ;; if snd x then rollback_loopM key (fst x) r else fail
  end.
Definition cs_rollbackM (c : cfg) (l : list N) : M unit :=
  st <- loadM c ;; rollback_loopM (c_key c) (snd st) l ;;; ret tt.

Definition cs_is_badM (c : cfg) (n : N) : M bool :=
  st <- loadM c ;; ret (inb n (bad (snd st))).

Definition cs_copy_eventsM (c : cfg) : M (list event) :=
  st <- loadM c ;; ret (firstn 3 (evq (fst st))).
Definition cs_clear_eventsM (c : cfg) : M unit :=
  st <- loadM c ;; ignore_err (write_sj {| rel := rel (fst st); evq := [] |}).

Definition cs_installM (c : cfg) (p : patch) (b : bytes) : M ustatus :=
  st <- loadM c ;;
  if inb (p_num p) (bad (snd st)) then ret UBadPatch
  else add_patchM (snd st) (p_num p) b (p_hash p) (p_sig p) ;;; ret UInstalled.

Definition should_installM (c : cfg) (n : N) : M should :=
  b <- cs_is_badM c n ;;
  if b then ret ShBad
  else r <- cs_nextM c ;;
       ret (match r with Some k => if N.eqb k n then ShAlready else ShOk | None => ShOk end).

Definition do_checkM (c : cfg) (r : option resp) : M bool :=
  match r with
  | None => fail
  | Some rs =>
      (match r_rb rs with Some l => cs_rollbackM c l | None => ret tt end) ;;;
      match r_patch rs with
      | None => ret false
      | Some p => sh <- should_installM c (p_num p) ;; ret (match sh with ShOk => true | _ => false end)
      end
  end.

(* ---- the download directory (<code_cache>/downloads): download_to_path, inflate, check_hash.
   Its files are not part of [disk] (the persisted state); a system call on them is a step that can be the point of
   death or fail, and that leaves [disk] as it is.  What matters to the lifecycle is WHICH BYTES <n>.full holds when
   check_hash reads it back and add_patch renames it into place. *)
Definition dstep : M unit := mut (fun d => d) (fun _ d => d).
(* the write performed when inflate's BufWriter is dropped at the end of the function: a failure is swallowed
   (the same shape as a read step: nothing changes, and under FailAt the caller is NOT told) *)
Definition dflush : M bool := rd.

Fixpoint take (n : N) (l : bytes) : bytes :=
  match l with
  | [] => []
  | x :: t => if n =? 0 then [] else x :: take (n - 1) t
  end.
(* io::copy hands full 8 KiB buffers to the file as it goes (errors propagate); the rest waits for the drop *)
Definition flushed_prefix (out : bytes) : bytes := take (8192 * (blen out / 8192)) out.

(* what <n>.full holds after download_to_path + inflate returned Ok *)
Definition downloadM (bdl : bytes) : M bytes :=
  dstep ;;;                 (* create_dir_all(downloads) when it does not exist yet *)
  dstep ;;;                 (* File::create(downloads/<n>) (truncate) *)
  dstep ;;;                 (* write_all of the downloaded bytes *)
  dstep ;;;                 (* File::create(downloads/<n>.full) (truncate) *)
  match inflate zdec base bdl with
  | None => fail            (* bipatch::Reader::new or a read of the patch stream fails *)
  | Some out =>
      (if 8192 <=? blen out then dstep else ret tt) ;;;
      ok <- dflush ;;
      ret (if ok then out else flushed_prefix out)
  end.

Definition do_updateM (c : cfg) (r : option resp) (dl : option bytes) : M ustatus :=
  cs_copy_eventsM c ;;;
  cs_clear_eventsM c ;;;
  match r with
  | None => fail
  | Some rs =>
      (match r_rb rs with Some l => cs_rollbackM c l | None => ret tt end) ;;;
      if negb (r_avail rs) then ret UNoUpdate
      else match r_patch rs with
           | None => fail
           | Some p =>
               sh <- should_installM c (p_num p) ;;
               match sh with
               | ShBad => ret UBadPatch
               | ShAlready => ret UNoUpdate
               | ShOk =>
                   match dl with
                   | None => fail
                   | Some bdl =>
                       (* check_hash re-reads <n>.full: the gate is on the FILE, and the file is what add_patch moves *)
                       fileb <- downloadM bdl ;;
                       if hash_ok sha fileb (p_hash p) then cs_installM c p fileb else fail
                   end
               end
           end
  end.

(* the disk effect and C-level result of one API call under a plan *)
Definition callM (c : cfg) (o : op) : M out :=
  match o with
  | ONextNum => r <- cs_nextM c ;; ret (RNum (match r with Some n => n | None => 0 end))
  | ONextPath => r <- cs_nextM c ;; ret (RPath r)
  | OCurNum => r <- cs_currentM c ;; ret (RNum (match r with Some n => n | None => 0 end))
  | OStart => ignore_err (cs_startM c) ;;; ret RUnit
  | OSuccess => ignore_err (cs_successM c) ;;; ret RUnit
  | OFailure => ignore_err (cs_failureM c) ;;; ret RUnit
  | OCheck _ r => ok <- attempt (do_checkM c r) ;; ret RUnit
  | OUpdate _ r dl => ok <- attempt (do_updateM c r dl) ;; ret RUnit
  | _ => ret RUnit
  end.

(* first call of a new process: set_config then handle_prior_boot_failure_if_necessary *)
Definition initM (c : cfg) : M out := ok <- attempt (cs_init_recoverM c) ;; ret (RBool ok).

Definition run_plan {A} (m : M A) (pl : plan) (d : disk) : outcome A * disk :=
  let '(o, _, d') := m pl 0%nat d in (o, d').

End Oracles.
