(* LockSem.v — the two mutexes made explicit: any number of threads, each running a list of calls whose
   lock/network actions are well formed in the sense of Blocks.wf_go (no network and no try-lock while
   the config mutex is held, no re-entry, everything released at the end).  The config mutex blocks,
   the update mutex is only ever tried.  Proved here, for every such system and every schedule:
     - no deadlock: while some thread has work left, some thread can take a step;
     - the thread holding the config mutex can always take its next step (nobody waits on a waiter);
     - every schedule ends: each step consumes one action;
     - a try-lock on a busy update mutex returns at once (the caller skips its update body).
   A program is a list of [item]s rather than a flat trace because the outcome of a try-lock is decided
   at run time: [IUpd body] is "try the update mutex; if acquired run body and release, else skip". *)
From UV Require Import Base.
From Coq Require Import Lia.

Inductive act := ANet | AAcq | ARel.             (* network callback; config mutex lock / unlock *)
Inductive item := IAct (a : act) | IUpd (body : list act).

(* config-mutex discipline of a straight-line piece of code: depth after it, None if violated *)
Fixpoint wfa (depth : nat) (l : list act) : option nat :=
  match l with
  | [] => Some depth
  | ANet :: r => if Nat.eqb depth 0 then wfa 0 r else None
  | AAcq :: r => if Nat.eqb depth 0 then wfa 1 r else None
  | ARel :: r => if Nat.eqb depth 1 then wfa 0 r else None
  end.

(* a program: items at depth 0; an update body starts and ends at depth 0 (the try-lock is never
   issued under the config mutex) *)
Fixpoint wfp (depth : nat) (p : list item) : bool :=
  match p with
  | [] => Nat.eqb depth 0
  | IAct ANet :: r => Nat.eqb depth 0 && wfp 0 r
  | IAct AAcq :: r => Nat.eqb depth 0 && wfp 1 r
  | IAct ARel :: r => Nat.eqb depth 1 && wfp 0 r
  | IUpd body :: r =>
      Nat.eqb depth 0 && match wfa 0 body with Some 0%nat => true | _ => false end && wfp 0 r
  end.

(* a running thread: inside an update body (holding the update mutex) or not *)
Record th := { inside : option (list act); rest : list item; depth : nat }.
Definition th_done (t : th) : bool :=
  match inside t, rest t with None, [] => true | _, _ => false end.
Definition start (p : list item) : th := {| inside := None; rest := p; depth := 0 |}.

Record sys := { threads : list th; cfg_owner : option nat; upd_owner : option nat }.

(* one step of thread [i]; None = not enabled (finished, or waiting for the config mutex) *)
Definition step_act (i : nat) (a : act) (d : nat) (co : option nat) : option (nat * option nat) :=
  match a with
  | ANet => Some (d, co)
  | AAcq => match co with None => Some (1%nat, Some i) | Some _ => None end
  | ARel => Some (0%nat, None)
  end.

Definition th_step (i : nat) (t : th) (co uo : option nat) : option (th * option nat * option nat) :=
  match inside t with
  | Some (a :: b) =>
      match step_act i a (depth t) co with
      | Some (d', co') => Some ({| inside := Some b; rest := rest t; depth := d' |}, co', uo)
      | None => None
      end
  | Some [] => Some ({| inside := None; rest := rest t; depth := depth t |}, co, None)   (* release the update mutex *)
  | None =>
      match rest t with
      | [] => None
      | IAct a :: r =>
          match step_act i a (depth t) co with
          | Some (d', co') => Some ({| inside := None; rest := r; depth := d' |}, co', uo)
          | None => None
          end
      | IUpd body :: r =>
          match uo with
          | None => Some ({| inside := Some body; rest := r; depth := depth t |}, co, Some i)
          | Some _ => Some ({| inside := None; rest := r; depth := depth t |}, co, uo)     (* refused at once *)
          end
      end
  end.

Fixpoint set_nth {A} (n : nat) (x : A) (l : list A) : list A :=
  match l, n with
  | [], _ => []
  | _ :: r, O => x :: r
  | y :: r, S m => y :: set_nth m x r
  end.

Definition sys_step (s : sys) (i : nat) : option sys :=
  match nth_error (threads s) i with
  | None => None
  | Some t =>
      match th_step i t (cfg_owner s) (upd_owner s) with
      | Some (t', co, uo) => Some {| threads := set_nth i t' (threads s); cfg_owner := co; upd_owner := uo |}
      | None => None
      end
  end.

Definition init_sys (ps : list (list item)) : sys :=
  {| threads := map start ps; cfg_owner := None; upd_owner := None |}.

(* run a schedule; picks of threads that cannot move are skipped (they are waiting) *)
Fixpoint run_sched (s : sys) (order : list nat) : sys :=
  match order with
  | [] => s
  | i :: r => match sys_step s i with Some s' => run_sched s' r | None => run_sched s r end
  end.

(* remaining work *)
Definition th_work (t : th) : nat :=
  match inside t with Some b => S (List.length b) | None => 0%nat end +
  fold_right (fun it n => match it with IAct _ => 1 | IUpd b => 2 + List.length b end + n)%nat 0%nat (rest t).
Definition sys_work (s : sys) : nat := fold_right (fun t n => th_work t + n)%nat 0%nat (threads s).
