(* JsonSjWidth.v — the room the vector reader is given does not matter once it is enough: for every width at least the
   length of the text the reader of state.json computes the same thing.  So [sj_of_file] (width = length of the text) is
   the reader with unbounded room, and the torn-write theorem holds for [sj_of_file] itself. *)
From UV Require Import Base Codec Model Json JsonProofs JsonText JsonTextProofs JsonTextSound JsonTorn JsonState JsonSj JsonSjProofs.
From Coq Require Import Lia.
Local Open Scope N_scope.

Lemma GS_len_pos sc t b : GS sc t b -> (1 <= List.length b)%nat.
Proof. intros g. destruct (GS_head _ _ _ g) as (c & z & -> & _). cbn. lia. Qed.

Lemma field_of_repeat k p n : (1 <= n)%nat ->
  field_of k (repeat p n) = if String.eqb k (fst p) then Some (snd p) else None.
Proof.
  destruct p as [nm sc]. induction n as [|n IH]; [lia|]. intros _. cbn [repeat field_of fst snd].
  destruct (String.eqb k nm) eqn:E; [reflexivity|].
  destruct n as [|n']; [reflexivity|]. rewrite IH by lia. cbn [fst snd]. rewrite E. reflexivity.
Qed.

Lemma hd_schema_repeat p n : (1 <= n)%nat -> hd_schema (repeat p n) = snd p.
Proof. destruct n as [|n]; [lia|]. intros _. destruct p. reflexivity. Qed.
Lemma tl_repeat {A} (p : A) n : tl (repeat p n) = repeat p (pred n).
Proof. destruct n; reflexivity. Qed.

(* elements of a vector: room for as many as the text has bytes is room enough *)
Lemma vec_GSE p : forall fs l b, GSE fs l b -> forall n m, fs = repeat p n ->
  (List.length b <= n)%nat -> (List.length b <= m)%nat -> GSE (repeat p m) l b.
Proof.
  induction 1 as [fs v b w2 Hv Hw2|fs v b w2 w1 l b' Hv Hw2 Hw1 He IH]; intros n m -> Hn Hm.
  - pose proof (GS_len_pos _ _ _ Hv) as Hp. rewrite !app_length in *. cbn [List.length] in *.
    rewrite hd_schema_repeat in Hv by lia. constructor; [|exact Hw2]. rewrite hd_schema_repeat by lia. exact Hv.
  - pose proof (GS_len_pos _ _ _ Hv) as Hp. rewrite !app_length in *. cbn [List.length] in *. rewrite !app_length in *.
    rewrite hd_schema_repeat in Hv by lia. constructor; try assumption.
    + rewrite hd_schema_repeat by lia. exact Hv.
    + rewrite tl_repeat. apply (IH (pred n)); [apply tl_repeat|lia|lia].
Qed.

Lemma vec_GSV p n m k v b : (1 <= n)%nat -> (1 <= m)%nat -> GSV (repeat p n) k v b -> GSV (repeat p m) k v b.
Proof.
  intros Hn Hm H. inversion H; subst.
  - eapply GSV_known; [|eassumption]. rewrite (field_of_repeat _ p m Hm). rewrite <- (field_of_repeat _ p n Hn). eassumption.
  - eapply GSV_unknown; [|eassumption]. rewrite (field_of_repeat _ p m Hm). rewrite <- (field_of_repeat _ p n Hn). eassumption.
Qed.

Lemma vec_GSM p n m : (1 <= n)%nat -> (1 <= m)%nat -> forall fs l b, GSM fs l b -> fs = repeat p n -> GSM (repeat p m) l b.
Proof.
  intros Hn Hm. induction 1 as [fs k kb w2 w3 v b w4 Hk Hw2 Hw3 Hv Hw4|fs k kb w2 w3 v b w4 w1 l b' Hk Hw2 Hw3 Hv Hw4 Hw1 Hm' IH]; intros ->.
  - constructor; try assumption. apply (vec_GSV p n m); assumption.
  - constructor; try assumption; [apply (vec_GSV p n m); assumption|]. apply IH. reflexivity.
Qed.

Lemma vec_GS p n m t b : GS (SStruct (repeat p n)) t b -> (List.length b <= n)%nat -> (List.length b <= m)%nat ->
  GS (SStruct (repeat p m)) t b.
Proof.
  intros H Hn Hm.
  inversion H as [| ? ? ? Hgg Hno Hna | ? w0 Hw0 | ? l w0 b0 Hw0 Hmm | ? w0 Hw0 | ? l w0 b0 Hw0 He]; subst.
  - apply GS_other; assumption.
  - apply GS_obj0; assumption.
  - cbn [List.length] in *. rewrite app_length in *. apply GS_obj; [assumption|].
    eapply (vec_GSM p n m); [lia|lia|exact Hmm|reflexivity].
  - apply GS_arr0; assumption.
  - cbn [List.length] in *. rewrite app_length in *. apply GS_arr; [assumption|].
    eapply (vec_GSE p); [exact He|reflexivity|lia|lia].
Qed.

(* ---------- the state file's own schema ---------- *)
Definition F (n : nat) : list (string * schema) :=
  [("release_version", SLeaf); ("queued_events", vec_schema n event_schema)]%string.

Lemma field_of_F k n :
  field_of k (F n) = if String.eqb k "release_version" then Some SLeaf
                     else if String.eqb k "queued_events" then Some (vec_schema n event_schema) else None.
Proof. reflexivity. Qed.

Lemma outer_GSV n m k v b : GSV (F n) k v b -> (List.length b <= n)%nat -> (List.length b <= m)%nat -> GSV (F m) k v b.
Proof.
  intros H Hn Hm. inversion H as [fs k0 sc v0 b0 Hf Hg|fs k0 b0 Hf Hl]; subst.
  - rewrite field_of_F in Hf.
    destruct (String.eqb k "release_version") eqn:E1.
    + injection Hf as <-. apply GSV_known with (sc := SLeaf); [|exact Hg]. rewrite field_of_F, E1. reflexivity.
    + destruct (String.eqb k "queued_events") eqn:E2; [|discriminate]. injection Hf as <-.
      apply GSV_known with (sc := vec_schema m event_schema); [rewrite field_of_F, E1, E2; reflexivity|].
      unfold vec_schema in *. apply (vec_GS _ n m); assumption.
  - apply GSV_unknown; [|exact Hl]. rewrite field_of_F in *.
    destruct (String.eqb k "release_version"); [discriminate|]. destruct (String.eqb k "queued_events"); [discriminate|]. reflexivity.
Qed.

Lemma outer_GSM n m : forall fs l b, GSM fs l b -> fs = F n ->
  (List.length b <= n)%nat -> (List.length b <= m)%nat -> GSM (F m) l b.
Proof.
  induction 1 as [fs k kb w2 w3 v b w4 Hk Hw2 Hw3 Hv Hw4|fs k kb w2 w3 v b w4 w1 l b' Hk Hw2 Hw3 Hv Hw4 Hw1 Hm' IH]; intros -> Hn Hm.
  - repeat (rewrite ?app_length in Hn, Hm; cbn [List.length] in Hn, Hm).
    constructor; try assumption. apply (outer_GSV n m); [assumption|lia|lia].
  - repeat (rewrite ?app_length in Hn, Hm; cbn [List.length] in Hn, Hm).
    constructor; try assumption; [apply (outer_GSV n m); [assumption|lia|lia]|]. apply IH; [reflexivity|lia|lia].
Qed.

Lemma GSE_nil_any l b : GSE [] l b -> GSE [] l b.
Proof. exact (fun H => H). Qed.

Lemma outer_GSE n m l b : GSE (F n) l b -> (List.length b <= n)%nat -> (List.length b <= m)%nat -> GSE (F m) l b.
Proof.
  intros H Hn Hm.
  inversion H as [fs v b0 w2 Hv Hw2|fs v b0 w2 w1 l' b' Hv Hw2 Hw1 He]; subst.
  - constructor; assumption.
  - constructor; try assumption. cbn [tl F] in *.
    repeat (rewrite ?app_length in Hn, Hm; cbn [List.length] in Hn, Hm).
    inversion He as [fs v1 b1 w3 Hv1 Hw3|fs v1 b1 w3 w4 l'' b'' Hv1 Hw3 Hw4 He']; subst.
    + repeat (rewrite ?app_length in Hn, Hm; cbn [List.length] in Hn, Hm).
      constructor; [|assumption]. cbn [hd_schema] in *. unfold vec_schema in *. apply (vec_GS _ n m); [assumption|lia|lia].
    + repeat (rewrite ?app_length in Hn, Hm; cbn [List.length] in Hn, Hm).
      constructor; try assumption. cbn [hd_schema] in *. unfold vec_schema in *. apply (vec_GS _ n m); [assumption|lia|lia].
Qed.

Lemma outer_GS n m t b : GS (sstate_schema n) t b -> (List.length b <= n)%nat -> (List.length b <= m)%nat ->
  GS (sstate_schema m) t b.
Proof.
  intros H Hn Hm. unfold sstate_schema in *. fold (F n) in H. fold (F m).
  inversion H as [| ? ? ? Hgg Hno Hna | ? w0 Hw0 | ? l w0 b0 Hw0 Hmm | ? w0 Hw0 | ? l w0 b0 Hw0 He]; subst.
  - apply GS_other; assumption.
  - apply GS_obj0; assumption.
  - cbn [List.length] in *. rewrite app_length in *. apply GS_obj; [assumption|].
    eapply (outer_GSM n m); [exact Hmm|reflexivity|lia|lia].
  - apply GS_arr0; assumption.
  - cbn [List.length] in *. rewrite app_length in *. apply GS_arr; [assumption|].
    apply (outer_GSE n m); [exact He|lia|lia].
Qed.

Lemma parse_body_width_one_way n m l t :
  (List.length l <= n)%nat -> (List.length l <= m)%nat ->
  parse_body (sstate_schema n) l = Some t -> parse_body (sstate_schema m) l = Some t.
Proof.
  intros Hn Hm H. apply parse_body_iff in H. destruct H as (w & b & w' & Hw & Hg & Hw' & ->).
  apply parse_body_iff. exists w, b, w'. repeat split; try assumption.
  rewrite !app_length in *. apply (outer_GS n m); [assumption|lia|lia].
Qed.

Theorem parse_body_width n m l :
  (List.length l <= n)%nat -> (List.length l <= m)%nat ->
  parse_body (sstate_schema n) l = parse_body (sstate_schema m) l.
Proof.
  intros Hn Hm.
  destruct (parse_body (sstate_schema n) l) as [t|] eqn:E1.
  - symmetry. apply (parse_body_width_one_way n m); assumption.
  - destruct (parse_body (sstate_schema m) l) as [t'|] eqn:E2; [|reflexivity].
    apply (parse_body_width_one_way m n) in E2; [congruence|assumption|assumption].
Qed.

(* any room that is enough reads what [sj_of_file] reads *)
Theorem sj_of_file_width n l : (List.length l <= n)%nat -> sj_of_file_n n l = sj_of_file l.
Proof.
  intros H. unfold sj_of_file, sj_of_file_n, fstate_of_body_n.
  rewrite (parse_body_width n (List.length l) l H (le_n _)). reflexivity.
Qed.

(* state.json cut short, for the reader itself *)
Theorem torn_state_json (P p r : bytes) s :
  sj_of_file P = JOk s -> P = p ++ r -> r <> [] ->
  (exists x, skip_ws P = 123 :: x) -> (exists y, P = y ++ [125]) ->
  sj_of_file p = JGarbage.
Proof.
  intros HP EP Hr Hs He.
  assert (Hlen : (List.length p <= List.length P)%nat) by (rewrite EP, app_length; lia).
  rewrite <- (sj_of_file_width (List.length P) p Hlen).
  apply (torn_state_json_is_garbage (List.length P) P p r s); assumption.
Qed.
