(* FaultDownload.v — C05's first sentence under faults, the download directory included: whatever single system
   call fails (or however the call is cut short), an update that REPORTS 'installed' has put in place exactly the file
   that check_hash read back — the inflated output, or what a swallowed flush left of it — and that file's SHA-256
   is the advertised one.  In particular a gate that hashed the bytes "intended for disk" would not satisfy this. *)
From UV Require Import Base Codec Model Inv Fault.
Arguments N.eqb : simpl never.
Arguments N.leb : simpl never.
Arguments N.mul : simpl never.
Arguments N.div : simpl never.

Lemma bind_ret_inv {A B} (m : M A) (f : A -> M B) pl c d b c' d' :
  bind m f pl c d = (Ret b, c', d') ->
  exists a c1 d1, m pl c d = (Ret a, c1, d1) /\ f a pl c1 d1 = (Ret b, c', d').
Proof.
  unfold bind. destruct (m pl c d) as [[o c1] d1]. destruct o as [a| |]; intros H; try discriminate.
  exists a, c1, d1. auto.
Qed.

Tactic Notation "binv" hyp(H) "as" ident(a) ident(c) ident(d) ident(E) :=
  apply bind_ret_inv in H; destruct H as (a & c & d & E & H).

(* one mutating call: either its effect, or (failing / not reached) nothing *)
Lemma atomic_any f pl c d o c' d' : atomic f pl c d = (o, c', d') -> d' = f d \/ d' = d.
Proof.
  unfold atomic, mut. destruct pl as [|k sub|k sub].
  - intros H; injection H as _ _ <-. auto.
  - destruct (Nat.eqb c k); intros H; injection H as _ _ <-; auto.
  - destruct (Nat.eqb c k); intros H; injection H as _ _ <-; auto.
Qed.

Lemma atomic_ret f pl c d u c' d' : atomic f pl c d = (Ret u, c', d') -> d' = f d.
Proof.
  unfold atomic, mut. destruct pl as [|k sub|k sub].
  - intros H; injection H as _ _ <-. auto.
  - destruct (Nat.eqb c k); intros H; try discriminate; injection H as _ _ <-; auto.
  - destruct (Nat.eqb c k); intros H; try discriminate; injection H as _ _ <-; auto.
Qed.

Lemma dstep_ret pl c d u c' d' : dstep pl c d = (Ret u, c', d') -> d' = d.
Proof. intros H. apply (atomic_ret (fun x => x)) in H. exact H. Qed.

Lemma rd_disk pl c d o c' d' : rd pl c d = (o, c', d') -> d' = d.
Proof.
  unfold rd. destruct pl as [|k sub|k sub].
  - intros H; injection H as _ _ <-. auto.
  - destruct (Nat.eqb c k); intros H; injection H as _ _ <-; auto.
  - destruct (Nat.eqb c k); intros H; injection H as _ _ <-; auto.
Qed.

Lemma ret_inv {A} (a b : A) pl c d c' d' : ret a pl c d = (Ret b, c', d') -> a = b /\ d' = d.
Proof. unfold ret. intros H. injection H as -> _ <-. auto. Qed.

Section Oracles.
Variable sha : bytes -> bytes.
Variable sigok : string -> string -> string -> bool.
Variable zdec : bytes -> bytes.
Variable base : bytes.

(* download_to_path + inflate returned Ok: the persisted state was not touched, and <n>.full holds the inflated
   output - or, if the write at the BufWriter's drop failed silently, the part io::copy had already handed over *)
Lemma download_ret bdl pl c d fileb c' d' :
  downloadM zdec base bdl pl c d = (Ret fileb, c', d') ->
  d' = d /\ exists out, inflate zdec base bdl = Some out /\ (fileb = out \/ fileb = flushed_prefix out).
Proof.
  unfold downloadM. intros H.
  binv H as u1 k1 e1 E1. apply dstep_ret in E1. subst e1.
  binv H as u2 k2 e2 E2. apply dstep_ret in E2. subst e2.
  binv H as u3 k3 e3 E3. apply dstep_ret in E3. subst e3.
  binv H as u4 k4 e4 E4. apply dstep_ret in E4. subst e4.
  destruct (inflate zdec base bdl) as [out|]; [|discriminate].
  binv H as u5 k5 e5 E5.
  assert (e5 = d) as ->.
  { destruct (8192 <=? blen out); [apply dstep_ret in E5; exact E5|apply ret_inv in E5; apply E5]. }
  binv H as ok k6 e6 E6. apply rd_disk in E6. subst e6.
  apply ret_inv in H. destruct H as [Hf ->]. split; [reflexivity|].
  exists out. split; [reflexivity|]. destruct ok; auto.
Qed.

(* ... and whatever they return, wherever they die: the persisted state is the one they started from *)
Lemma bind_disk {A B} (m : M A) (f : A -> M B) (d : disk) :
  (forall pl c o c' d', m pl c d = (o, c', d') -> d' = d) ->
  (forall a pl c o c' d', f a pl c d = (o, c', d') -> d' = d) ->
  forall pl c o c' d', bind m f pl c d = (o, c', d') -> d' = d.
Proof.
  intros Hm Hf pl c o c' d'. unfold bind. destruct (m pl c d) as [[o1 c1] d1] eqn:E.
  apply Hm in E. subst d1. destruct o1 as [a| |].
  - apply Hf.
  - intros H; injection H as _ _ <-; reflexivity.
  - intros H; injection H as _ _ <-; reflexivity.
Qed.

Lemma dstep_disk pl c d o c' d' : dstep pl c d = (o, c', d') -> d' = d.
Proof. intros H. apply (atomic_any (fun x => x)) in H. destruct H; auto. Qed.

Lemma download_any bdl pl c d o c' d' : downloadM zdec base bdl pl c d = (o, c', d') -> d' = d.
Proof.
  unfold downloadM. revert pl c o c' d'.
  apply bind_disk; [intros; eapply dstep_disk; eauto|intros _].
  apply bind_disk; [intros; eapply dstep_disk; eauto|intros _].
  apply bind_disk; [intros; eapply dstep_disk; eauto|intros _].
  apply bind_disk; [intros; eapply dstep_disk; eauto|intros _].
  destruct (inflate zdec base bdl) as [out|].
  - apply bind_disk.
    + destruct (8192 <=? blen out); intros pl c o c' d' H; [eapply dstep_disk; eauto|].
      unfold ret in H. injection H as _ _ <-. reflexivity.
    + intros _. apply bind_disk; [intros; eapply rd_disk; eauto|].
      intros ok pl c o c' d' H. unfold ret in H. injection H as _ _ <-. reflexivity.
  - intros pl c o c' d' H. unfold fail in H. injection H as _ _ <-. reflexivity.
Qed.

(* deleting patches/x leaves every other entry alone, whatever happens on the way *)
Lemma rm_art_frame x n pl c d o c' d' :
  rm_art x pl c d = (o, c', d') -> n <> x -> arts d' n = arts d n.
Proof.
  unfold rm_art, bind, get. intros H Hn.
  assert (K1 : arts (del_art d x) n = arts d n).
  { unfold del_art, upd_art. cbn [arts set_arts]. destruct (N.eqb_spec n x); [contradiction|reflexivity]. }
  assert (K2 : arts (set_arts d (upd_art (arts d) x (Some ADir))) n = arts d n).
  { unfold upd_art. cbn [arts set_arts]. destruct (N.eqb_spec n x); [contradiction|reflexivity]. }
  destruct (arts d x) as [[|bb]|].
  - apply atomic_any in H. destruct H as [-> | ->]; auto.
  - destruct (atomic (fun _ : disk => set_arts d (upd_art (arts d) x (Some ADir))) pl c d) as [[o1 c1] d1] eqn:E1.
    apply atomic_any in E1.
    destruct o1 as [u| |].
    + apply atomic_any in H. destruct H as [-> | ->]; [exact K1|]. destruct E1 as [-> | ->]; auto.
    + injection H as _ _ <-. destruct E1 as [-> | ->]; auto.
    + injection H as _ _ <-. destruct E1 as [-> | ->]; auto.
  - unfold touch in H. injection H as _ _ <-. exact K1.
Qed.

Lemma ignore_rm_art_frame x n pl c d o c' d' :
  ignore_err (rm_art x) pl c d = (o, c', d') -> n <> x -> arts d' n = arts d n.
Proof.
  unfold ignore_err. destruct (rm_art x pl c d) as [[o1 c1] d1] eqn:E. intros H Hn.
  assert (d' = d1) as -> by (destruct o1; injection H as _ _ <-; reflexivity).
  eapply rm_art_frame; eauto.
Qed.

(* disk_io::write of patches_state.json returned Ok: the artifacts are untouched and the file holds the new state,
   or garbage if the buffered write failed silently *)
Lemma write_pj_ret s pl c d u c' d' :
  write_pj s pl c d = (Ret u, c', d') -> arts d' = arts d /\ (pj d' = JOk s \/ pj d' = JGarbage).
Proof.
  unfold write_pj. intros H. binv H as u1 k1 e1 E1. apply atomic_ret in E1. subst e1.
  unfold mut_swallow in H. destruct pl as [|k sub|k sub].
  - injection H as _ _ <-. cbn. auto.
  - destruct (Nat.eqb k1 k); [discriminate|]. injection H as _ _ <-. cbn. auto.
  - destruct (Nat.eqb k1 k); injection H as _ _ <-; cbn; auto.
Qed.

(* add_patch returned Ok: patches/n/dlc.vmcode is the file it was given; patches_state.json names it (or is garbage) *)
Lemma add_patch_ret s n b h sg pl c d s' c' d' :
  add_patchM s n b h sg pl c d = (Ret s', c', d') ->
  arts d' n = Some (AFile b) /\
  s' = {| lb := lb s; nb := Some {| m_num := n; m_size := blen b; m_hash := h; m_sig := sg |}; cb := cb s; bad := bad s |} /\
  (pj d' = JOk s' \/ pj d' = JGarbage).
Proof.
  unfold add_patchM. intros H.
  binv H as dg k0 e0 E0. unfold get in E0. injection E0 as <- <- <-.
  binv H as u1 k1 e1 E1. clear E1.
  binv H as u2 k2 e2 E2. apply atomic_ret in E2. subst e2.
  binv H as u3 k3 e3 E.
  assert (Ka : arts e3 n = Some (AFile b)).
  { assert (K0 : arts (put_art d n b) n = Some (AFile b)).
    { unfold put_art, upd_art. cbn [arts set_arts]. rewrite N.eqb_refl. reflexivity. }
    destruct (nb s) as [x|]; [destruct (lb s) as [l|]|].
    - destruct (negb (N.eqb (m_num l) (m_num x)) && negb (N.eqb (m_num x) n) && negb (numeq (cb s) (m_num x)))%bool eqn:Ec.
      + apply Bool.andb_true_iff in Ec. destruct Ec as [Ec _]. apply Bool.andb_true_iff in Ec. destruct Ec as [_ Ec].
        apply Bool.negb_true_iff in Ec. apply N.eqb_neq in Ec.
        erewrite ignore_rm_art_frame; [exact K0|exact E|]. intros Hx. apply Ec. symmetry. exact Hx.
      + apply ret_inv in E. destruct E as [_ ->]. exact K0.
    - apply ret_inv in E. destruct E as [_ ->]. exact K0.
    - apply ret_inv in E. destruct E as [_ ->]. exact K0. }
  binv H as u4 k4 e4 E4. apply write_pj_ret in E4. destruct E4 as [Ha Hp].
  apply ret_inv in H. destruct H as [<- ->].
  split; [rewrite Ha; exact Ka|]. split; [reflexivity|exact Hp].
Qed.

Lemma cs_install_ret c p b pl c0 d0 c1 d1 :
  cs_installM c p b pl c0 d0 = (Ret UInstalled, c1, d1) ->
  arts d1 (p_num p) = Some (AFile b) /\
  (pj d1 = JGarbage \/
   exists s, pj d1 = JOk s /\
     nb s = Some {| m_num := p_num p; m_size := blen b; m_hash := p_hash p; m_sig := p_sig p |} /\ ~ In (p_num p) (bad s)).
Proof.
  unfold cs_installM. intros H. binv H as st k1 e1 E1.
  destruct (inb (p_num p) (bad (snd st))) eqn:Eb.
  - apply ret_inv in H. destruct H as [H _]. discriminate.
  - binv H as s2 k2 e2 E2. apply add_patch_ret in E2. destruct E2 as (Ha & Hs & Hp).
    apply ret_inv in H. destruct H as [_ ->].
    split; [exact Ha|]. destruct Hp as [Hp|Hp]; [right|left; exact Hp].
    exists s2. split; [exact Hp|]. subst s2. cbn [nb bad]. split; [reflexivity|].
    intros Hin. apply inb_In in Hin. congruence.
Qed.

(* the theorem: for EVERY plan (no fault, death anywhere, any single failing call - download files included) *)
Theorem installed_is_the_verified_file c r dl pl c0 d0 c1 d1 :
  do_updateM sha sigok zdec base c r dl pl c0 d0 = (Ret UInstalled, c1, d1) ->
  exists rs p bdl out fileb,
    r = Some rs /\ r_patch rs = Some p /\ dl = Some bdl /\ inflate zdec base bdl = Some out /\
    (fileb = out \/ fileb = flushed_prefix out) /\
    hash_ok sha fileb (p_hash p) = true /\
    arts d1 (p_num p) = Some (AFile fileb) /\
    (pj d1 = JGarbage \/
     exists s, pj d1 = JOk s /\
       nb s = Some {| m_num := p_num p; m_size := blen fileb; m_hash := p_hash p; m_sig := p_sig p |} /\
       ~ In (p_num p) (bad s)).
Proof.
  unfold do_updateM. intros H. binv H as evs k1 e1 E1. clear E1. binv H as u2 k2 e2 E2. clear E2.
  destruct r as [rs|]; [|discriminate].
  binv H as u3 k3 e3 E3. clear E3.
  destruct (negb (r_avail rs)). { apply ret_inv in H. destruct H as [H _]. discriminate. }
  destruct (r_patch rs) as [p|] eqn:Ep; [|discriminate].
  binv H as sh k4 e4 E4. clear E4.
  destruct sh; try (apply ret_inv in H; destruct H as [H _]; discriminate).
  destruct dl as [bdl|]; [|discriminate].
  binv H as fileb k5 e5 E5. apply download_ret in E5. destruct E5 as (-> & out & Ei & Hf).
  destruct (hash_ok sha fileb (p_hash p)) eqn:Eh; [|discriminate].
  apply cs_install_ret in H. destruct H as [Ha Hp].
  exists rs, p, bdl, out, fileb. repeat (split; [solve [auto]|]). exact Hp.
Qed.

End Oracles.
