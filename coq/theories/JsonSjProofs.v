(* JsonSjProofs.v — facts about the reading of state.json. *)
From UV Require Import Base Codec Model Json JsonProofs JsonText JsonTextProofs JsonTextSound JsonTextExist JsonTorn JsonState JsonSj.
From Coq Require Import ZifyN ZifyBool Lia.
Local Open Scope N_scope.

(* the file is read exactly when it is a sentence of the schema whose tree is accepted *)
Theorem fstate_of_body_iff n l s :
  fstate_of_body_n n l = Some s <->
  exists w b w' t, WS w /\ GS (sstate_schema n) t b /\ WS w' /\ l = w ++ b ++ w' /\ fstate_of_json t = Some s.
Proof.
  unfold fstate_of_body_n. split.
  - destruct (parse_body (sstate_schema n) l) as [t|] eqn:E; [|discriminate]. intros H.
    apply parse_body_iff in E. destruct E as (w & b & w' & Hw & Hg & Hw' & ->). exists w, b, w', t. repeat split; assumption.
  - intros (w & b & w' & t & Hw & Hg & Hw' & -> & H).
    rewrite (proj2 (parse_body_iff (sstate_schema n) _ t)); [exact H|]. exists w, b, w'. repeat split; assumption.
Qed.

(* state.json cut short: if the complete text reads as a state, begins with '{' and ends with '}' (what
   serde_json::to_writer_pretty produces), every strict prefix of it is unreadable - for every reader width [n]
   (any width that has room for the events of the complete text has room for those of a prefix) *)
Theorem torn_state_json_is_garbage n (P p r : bytes) s :
  sj_of_file_n n P = JOk s -> P = p ++ r -> r <> [] ->
  (exists x, skip_ws P = 123 :: x) -> (exists y, P = y ++ [125]) ->
  sj_of_file_n n p = JGarbage.
Proof.
  intros HP EP Hr Hs He. unfold sj_of_file_n, fstate_of_body_n in *.
  destruct (parse_body (sstate_schema n) P) as [T|] eqn:E; [|discriminate].
  unfold sstate_schema in *.
  rewrite (torn_object_is_unreadable _ P p r T EP Hr E Hs He). reflexivity.
Qed.

(* ---------- what disk_io::write serializes is read back ---------- *)
Definition evkind_str (k : evkind) : string :=
  match k with
  | EvInstallSuccess => "__patch_install__"
  | EvInstallFailure => "__patch_install_failure__"
  | EvDownload => "__patch_download__"
  end.
Definition json_of_fevent (e : fevent) : json :=
  JObj [("app_id"%string, JStr (fe_app e)); ("arch"%string, JStr (fe_arch e)); ("type"%string, JStr (evkind_str (fe_kind e)));
        ("patch_number"%string, JNum (JInt false (fe_num e))); ("platform"%string, JStr (fe_platform e));
        ("release_version"%string, JStr (fe_rel e)); ("timestamp"%string, JNum (JInt false (fe_ts e)));
        ("message"%string, json_of_ostring (fe_msg e))].
Definition json_of_fstate (r : string) (q : list fevent) : json :=
  JObj [("release_version"%string, JStr r); ("queued_events"%string, JArr (map json_of_fevent q))].

Definition fevent_in_range (e : fevent) : Prop := fe_num e < two64 /\ fe_ts e < two64.

Lemma as_fevent_roundtrip e : fevent_in_range e -> as_fevent (json_of_fevent e) = Some e.
Proof.
  intros [H1 H2]. destruct e as [ap ar k n pl r t m]. cbn [fe_num fe_ts] in *.
  assert (E1 : (n <? two64) = true) by lia. assert (E2 : (t <? two64) = true) by lia.
  destruct k; destruct m as [m|]; cbv -[N.ltb two64]; rewrite E1, E2; reflexivity.
Qed.

Lemma all_fevents_roundtrip q : Forall fevent_in_range q -> all_fevents (map json_of_fevent q) = Some q.
Proof.
  induction 1 as [|e q He _ IH]; [reflexivity|]. cbn [map all_fevents].
  rewrite (as_fevent_roundtrip e He), IH. reflexivity.
Qed.

Theorem fstate_roundtrip r q : Forall fevent_in_range q -> fstate_of_json (json_of_fstate r q) = Some (r, q).
Proof.
  intros H. cbv -[all_fevents map json_of_fevent]. rewrite (all_fevents_roundtrip q H). reflexivity.
Qed.

(* any text that spells the tree of (r, q) - with whatever white space, escapes, member order within the grammar - is read
   as the model state {rel := r; evq := the events of q} *)
Theorem spelled_state_is_read n r q w b w' :
  Forall fevent_in_range q -> GS (sstate_schema n) (json_of_fstate r q) b -> WS w -> WS w' ->
  sj_of_file_n n (w ++ b ++ w') = JOk {| rel := r; evq := map event_of_fevent q |}.
Proof.
  intros Hq Hg Hw Hw'. unfold sj_of_file_n.
  rewrite (proj2 (fstate_of_body_iff n (w ++ b ++ w') (r, q))); [reflexivity|].
  exists w, b, w', (json_of_fstate r q). repeat split; try assumption. apply fstate_roundtrip. exact Hq.
Qed.

(* ---------- the model's event and the event in the file ---------- *)
Definition msg_text (n : N) (m : evmsg) : option string :=
  match m with
  | MsgNone => None
  | MsgInit => Some (msg_init n)
  | MsgEngine => Some (msg_engine n)
  | MsgOther s => Some s
  end.
Definition fevent_of_event (arch plat : string) (ts : N) (e : event) : fevent :=
  {| fe_app := e_app e; fe_arch := arch; fe_kind := e_kind e; fe_num := e_num e; fe_platform := plat; fe_rel := e_rel e;
     fe_ts := ts; fe_msg := msg_text (e_num e) (e_msg e) |}.
(* MsgOther stands for a text that is neither of the two the library writes *)
Definition msg_canonical (e : event) : Prop :=
  match e_msg e with
  | MsgOther s => String.eqb s (msg_init (e_num e)) = false /\ String.eqb s (msg_engine (e_num e)) = false
  | _ => True
  end.

Lemma msg_engine_not_init n : String.eqb (msg_engine n) (msg_init n) = false.
Proof. unfold msg_engine, msg_init. cbn [append String.eqb]. reflexivity. Qed.

Lemma event_of_fevent_of_event a p t e : msg_canonical e -> event_of_fevent (fevent_of_event a p t e) = e.
Proof.
  destruct e as [k n ap r m]. unfold msg_canonical, event_of_fevent, fevent_of_event. cbn [e_msg e_num e_kind e_app e_rel fe_kind fe_num fe_app fe_rel fe_msg].
  intros H. f_equal. destruct m as [| | |s]; cbn [msg_text evmsg_of].
  - reflexivity.
  - rewrite String.eqb_refl. reflexivity.
  - rewrite msg_engine_not_init, String.eqb_refl. reflexivity.
  - destruct H as [H1 H2]. rewrite H1, H2. reflexivity.
Qed.

(* every event the library itself queues (launch failure from the engine / found at init) is canonical, and is read back
   from the file it was written to *)
Lemma mk_event_canonical c k n m : (forall s, m <> MsgOther s) -> msg_canonical (mk_event c k n m).
Proof. intros H. unfold msg_canonical, mk_event. cbn [e_msg]. destruct m; try exact I. exfalso. eapply H. reflexivity. Qed.

Theorem queue_is_read_back a p ts (q : list event) :
  Forall msg_canonical q -> map event_of_fevent (map (fun e => fevent_of_event a p (ts e) e) q) = q.
Proof.
  induction 1 as [|e q He _ IH]; [reflexivity|]. cbn [map]. rewrite IH, (event_of_fevent_of_event a p (ts e) e He). reflexivity.
Qed.

(* non-vacuity and the edges: a document with a lenient-only unknown member inside an event and a positional event is
   read; a vector given as an object, an unknown event type, a missing required member are not; a missing message is None *)
Example sj_examples :
  sj_of_file (bytes_of "{""release_version"":""1.0.0+1"",""queued_events"":[{""app_id"":""a"",""arch"":""x86_64"",""type"":""__patch_install_failure__"",""patch_number"":12,""platform"":""linux"",""release_version"":""1.0.0+1"",""timestamp"":1700000000,""message"":""Patch 12 was marked currently_booting in init"",""zz"":""\ud800""},[""a"",""x"",""__patch_download__"",3,""linux"",""r"",5,null]]}")
    = JOk {| rel := "1.0.0+1"; evq := [ {| e_kind := EvInstallFailure; e_num := 12; e_app := "a"; e_rel := "1.0.0+1"; e_msg := MsgInit |};
                                          {| e_kind := EvDownload; e_num := 3; e_app := "a"; e_rel := "r"; e_msg := MsgNone |} ] |} /\
  sj_of_file (bytes_of "{""release_version"":""1"",""queued_events"":{}}") = JGarbage /\
  sj_of_file (bytes_of "{""release_version"":""1""}") = JGarbage /\
  sj_of_file (bytes_of "{""release_version"":""1"",""queued_events"":[],""release_version"":""1""}") = JGarbage /\
  sj_of_file (bytes_of "{""release_version"":""1"",""queued_events"":[{""app_id"":""a"",""arch"":""x86_64"",""type"":""bogus"",""patch_number"":12,""platform"":""linux"",""release_version"":""1"",""timestamp"":1,""message"":null}]}") = JGarbage /\
  sj_of_file (bytes_of "{""release_version"":""1"",""queued_events"":[{""app_id"":""a"",""arch"":""x86_64"",""type"":""__patch_install__"",""patch_number"":12,""platform"":""linux"",""release_version"":""1"",""timestamp"":1}]}")
    = JOk {| rel := "1"; evq := [ {| e_kind := EvInstallSuccess; e_num := 12; e_app := "a"; e_rel := "1"; e_msg := MsgNone |} ] |} /\
  sj_of_file (bytes_of "{""release_version"": ""1.0.0+1"", ""queued_events"": [") = JGarbage /\
  sj_of_file [] = JGarbage.
Proof. vm_compute. repeat split. Qed.
