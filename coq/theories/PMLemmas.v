(* PMLemmas.v — facts about the PatchManager-level functions of Model.v. *)
From UV Require Import Base Codec Model.
Arguments N.eqb : simpl never.
Arguments N.ltb : simpl never.
Arguments N.leb : simpl never.

Section Lemmas.
Variable sha : bytes -> bytes.
Variable sigok : string -> string -> string -> bool.

Notation validate := (validate sha sigok).
Notation fall_back := (fall_back sha sigok).
Notation next_boot := (next_boot sha sigok).
Notation boot_failure := (boot_failure sha sigok).
Notation rollback_loop := (rollback_loop sha sigok).

(* ---------- tactics ---------- *)
Ltac brk :=
  repeat match goal with
         | s : pstate |- _ => destruct s as [? ? ? ?]
         | d : disk |- _ => destruct d as [? ? ? ?]
         end; cbn in *.

Ltac cases :=
  repeat (match goal with
          | |- context [match ?x with _ => _ end] => destruct x eqn:?
          | H : context [match ?x with _ => _ end] |- _ => destruct x eqn:?
          end; cbn in *).

(* ---------- validate depends only on the artifact of that number ---------- *)
Lemma validate_arts key d d' m :
  arts d' (m_num m) = arts d (m_num m) -> validate key d' m = validate key d m.
Proof. unfold validate. intros ->. reflexivity. Qed.

Lemma validate_set_pj key d v m : validate key (set_pj d v) m = validate key d m.
Proof. reflexivity. Qed.
Lemma validate_set_sj key d v m : validate key (set_sj d v) m = validate key d m.
Proof. reflexivity. Qed.
Lemma validate_save key d s m : validate key (save_p d s) m = validate key d m.
Proof. reflexivity. Qed.

Lemma validate_some key d m :
  validate key d m = true -> exists b, arts d (m_num m) = Some (AFile b) /\ blen b = m_size m.
Proof.
  unfold validate. destruct (arts d (m_num m)) as [[|b]|]; try discriminate.
  intros H. apply andb_prop in H. destruct H as [H _]. exists b. split; auto.
  apply N.eqb_eq. exact H.
Qed.

Lemma validate_none key d m : arts d (m_num m) = None -> validate key d m = false.
Proof. unfold validate. intros ->. reflexivity. Qed.

Lemma upd_art_same a n v : upd_art a n v n = v.
Proof. unfold upd_art. rewrite N.eqb_refl. reflexivity. Qed.
Lemma upd_art_other a n v k : k <> n -> upd_art a n v k = a k.
Proof. unfold upd_art. intros H. destruct (N.eqb_spec k n); [contradiction|reflexivity]. Qed.

Lemma arts_del_same d n : arts (del_art d n) n = None.
Proof. cbn. apply upd_art_same. Qed.
Lemma arts_del_other d n k : k <> n -> arts (del_art d n) k = arts d k.
Proof. cbn. apply upd_art_other. Qed.

Lemma numeq_true o n : numeq o n = true <-> exists m, o = Some m /\ m_num m = n.
Proof.
  unfold numeq. destruct o as [m|].
  - rewrite N.eqb_eq. split; [intros; exists m; auto|intros [m' [E H]]; inversion E; subst; auto].
  - split; [discriminate|intros [m [E _]]; discriminate].
Qed.
Lemma numeq_false_some m n : numeq (Some m) n = false <-> m_num m <> n.
Proof. unfold numeq. apply N.eqb_neq. Qed.

(* ---------- fall_back: characterisation ---------- *)
Lemma fall_back_saved key d s b : pj (fst (fall_back key d s b)) = JOk (snd (fall_back key d s b)).
Proof. unfold fall_back. cases; reflexivity. Qed.

Lemma fall_back_bad key d s b : bad (snd (fall_back key d s b)) = bad s.
Proof. unfold fall_back. cases; reflexivity. Qed.

Lemma fall_back_cb key d s b : cb (snd (fall_back key d s b)) = cb s.
Proof. unfold fall_back. cases; reflexivity. Qed.

Lemma fall_back_sj key d s b : sj (fst (fall_back key d s b)) = sj d.
Proof. unfold fall_back. cases; reflexivity. Qed.

(* artifacts are only ever deleted by fall_back, and only those of b and of an unusable LB *)
Lemma fall_back_arts key d s b k :
  arts (fst (fall_back key d s b)) k = arts d k \/ arts (fst (fall_back key d s b)) k = None.
Proof.
  unfold fall_back. cases; cbn; unfold upd_art; cases; auto.
Qed.

Lemma fall_back_arts_kept key d s b k :
  k <> b ->
  (forall l, lb s = Some l -> m_num l = k -> validate key d l = true) ->
  arts (fst (fall_back key d s b)) k = arts d k.
Proof.
  intros Hk Hl. unfold fall_back.
  destruct (lb s) as [l|] eqn:El; cbn.
  - destruct (negb (N.eqb (m_num l) b) && validate key (del_art d b) l) eqn:E; cbn.
    + apply upd_art_other; auto.
    + destruct (N.eqb_spec k (m_num l)) as [->|Hn].
      * exfalso. specialize (Hl l eq_refl eq_refl).
        rewrite (validate_arts key d (del_art d b)) in E
          by (apply arts_del_other; auto).
        rewrite Hl in E. apply N.eqb_neq in Hk. rewrite Hk in E. discriminate.
      * rewrite upd_art_other by auto. apply upd_art_other; auto.
  - apply upd_art_other; auto.
Qed.

Lemma fall_back_deletes key d s b : arts (fst (fall_back key d s b)) b = None.
Proof.
  unfold fall_back. cases; cbn; unfold upd_art; cases; auto;
    rewrite ?N.eqb_refl in *; try discriminate; auto.
Qed.

(* what NB becomes *)
Lemma fall_back_nb key d s b :
  nb (snd (fall_back key d s b)) =
  let nb1 := if numeq (nb s) b then None else nb s in
  match lb s with
  | Some l => if negb (N.eqb (m_num l) b) && validate key (del_art d b) l
              then match nb1 with None => Some l | Some x => Some x end
              else nb1
  | None => nb1
  end.
Proof. unfold fall_back. cases; reflexivity. Qed.

Lemma fall_back_lb key d s b :
  lb (snd (fall_back key d s b)) =
  match lb s with
  | Some l => if negb (N.eqb (m_num l) b) && validate key (del_art d b) l then Some l else None
  | None => None
  end.
Proof. unfold fall_back. cases; reflexivity. Qed.

(* NB after fall_back is never the bad number *)
Lemma fall_back_nb_not_bad key d s b : numeq (nb (snd (fall_back key d s b))) b = false.
Proof.
  rewrite fall_back_nb. cbn zeta.
  destruct (numeq (nb s) b) eqn:E1; destruct (lb s) as [l|]; cbn; auto.
  - destruct (negb (N.eqb (m_num l) b) && validate key (del_art d b) l) eqn:E; cbn; auto.
    apply andb_prop in E. destruct E as [Hn _]. apply negb_true_iff in Hn. exact Hn.
  - destruct (negb (N.eqb (m_num l) b) && validate key (del_art d b) l) eqn:E; cbn; auto;
      destruct (nb s); cbn in *; auto.
    apply andb_prop in E. destruct E as [Hn _]. apply negb_true_iff in Hn. exact Hn.
Qed.

Lemma fall_back_lb_not_bad key d s b : numeq (lb (snd (fall_back key d s b))) b = false.
Proof.
  rewrite fall_back_lb. destruct (lb s) as [l|]; cbn; auto.
  destruct (negb (N.eqb (m_num l) b) && validate key (del_art d b) l) eqn:E; cbn; auto.
  apply andb_prop in E. destruct E as [Hn _]. apply negb_true_iff in Hn. exact Hn.
Qed.

(* LB after fall_back, if any, is valid on the resulting disk *)
Lemma fall_back_lb_valid key d s b l :
  lb (snd (fall_back key d s b)) = Some l -> validate key (fst (fall_back key d s b)) l = true.
Proof.
  unfold fall_back. destruct (lb s) as [l0|] eqn:El; cbn.
  - destruct (negb (N.eqb (m_num l0) b) && validate key (del_art d b) l0) eqn:E; cbn.
    + intros H. inversion H; subst. apply andb_prop in E. destruct E as [_ E]. exact E.
    + discriminate.
  - discriminate.
Qed.

(* if NB was the bad one, the new NB is LB when usable, else none: the fallback target *)
Lemma fall_back_target key d s b :
  numeq (nb s) b = true ->
  nb (snd (fall_back key d s b)) =
  match lb s with
  | Some l => if negb (N.eqb (m_num l) b) && validate key (del_art d b) l then Some l else None
  | None => None
  end.
Proof. intros H. rewrite fall_back_nb. cbn zeta. rewrite H. destruct (lb s); cases; reflexivity. Qed.

(* an NB that is not the bad one stays *)
Lemma fall_back_nb_kept key d s b x :
  nb s = Some x -> m_num x <> b -> nb (snd (fall_back key d s b)) = Some x.
Proof.
  intros H Hn. rewrite fall_back_nb. cbn zeta. rewrite H.
  apply numeq_false_some in Hn. rewrite Hn. destruct (lb s); cases; reflexivity.
Qed.

(* ---------- next_boot ---------- *)
Definition selected (key : option string) (d : disk) (s : pstate) (n : N) : Prop :=
  exists m, nb s = Some m /\ m_num m = n /\ validate key d m = true.

Lemma next_boot_selected key d s d' s' n :
  next_boot key d s = (d', s', Some n) -> selected key d' s' n.
Proof.
  unfold next_boot. destruct (nb s) as [m|] eqn:En; [|discriminate].
  destruct (validate key d m) eqn:Ev.
  - intros H. inversion H; subst. exists m. auto.
  - destruct (fall_back key d s (m_num m)) as [d1 s1] eqn:Ef. intros H. injection H as <- <- Hn.
    pose proof (fall_back_target key d s (m_num m)) as Ht. rewrite Ef in Ht. cbn in Ht.
    rewrite En in Ht. cbn in Ht. rewrite N.eqb_refl in Ht. specialize (Ht eq_refl).
    pose proof (fall_back_lb key d s (m_num m)) as Hl. rewrite Ef in Hl. cbn in Hl.
    pose proof (fall_back_lb_valid key d s (m_num m)) as Hv. rewrite Ef in Hv. cbn in Hv.
    destruct (nb s1) as [x|] eqn:Ex; [|discriminate]. cbn in Hn. injection Hn as <-.
    exists x. split; [exact Ex|]. split; [reflexivity|].
    apply Hv. rewrite Hl. symmetry. exact Ht.
Qed.

Lemma next_boot_saved key d s d' s' r :
  next_boot key d s = (d', s', r) -> pj d = JOk s -> pj d' = JOk s'.
Proof.
  unfold next_boot. destruct (nb s) as [m|]; [|intros H; inversion H; subst; auto].
  destruct (validate key d m).
  - intros H; inversion H; subst; auto.
  - pose proof (fall_back_saved key d s (m_num m)) as Hs.
    destruct (fall_back key d s (m_num m)) as [d1 s1]. intros H; inversion H; subst. intros _. exact Hs.
Qed.

Lemma next_boot_load key d d' s' r :
  next_boot key d (load_p d) = (d', s', r) -> load_p d' = s'.
Proof.
  unfold next_boot. destruct (nb (load_p d)) as [m|] eqn:En.
  - destruct (validate key d m).
    + intros H; inversion H; subst; auto.
    + pose proof (fall_back_saved key d (load_p d) (m_num m)) as Hs.
      destruct (fall_back key d (load_p d) (m_num m)) as [d1 s1]. intros H; inversion H; subst.
      unfold load_p. cbn in Hs. rewrite Hs. reflexivity.
  - intros H; inversion H; subst; auto.
Qed.

Lemma next_boot_bad key d s : bad (snd (fst (next_boot key d s))) = bad s.
Proof.
  unfold next_boot. destruct (nb s) as [m|]; cbn; auto.
  destruct (validate key d m); cbn; auto.
  pose proof (fall_back_bad key d s (m_num m)). destruct (fall_back key d s (m_num m)). cbn in *. auto.
Qed.

Lemma next_boot_cb key d s : cb (snd (fst (next_boot key d s))) = cb s.
Proof.
  unfold next_boot. destruct (nb s) as [m|]; cbn; auto.
  destruct (validate key d m); cbn; auto.
  pose proof (fall_back_cb key d s (m_num m)). destruct (fall_back key d s (m_num m)). cbn in *. auto.
Qed.

Lemma next_boot_sj key d s : sj (fst (fst (next_boot key d s))) = sj d.
Proof.
  unfold next_boot. destruct (nb s) as [m|]; cbn; auto.
  destruct (validate key d m); cbn; auto.
  pose proof (fall_back_sj key d s (m_num m)). destruct (fall_back key d s (m_num m)). cbn in *. auto.
Qed.

(* a valid selection is returned unchanged, and nothing on disk moves *)
Lemma next_boot_valid key d s m :
  nb s = Some m -> validate key d m = true -> next_boot key d s = (d, s, Some (m_num m)).
Proof. intros H Hv. unfold next_boot. rewrite H, Hv. reflexivity. Qed.

Lemma next_boot_none key d s : nb s = None -> next_boot key d s = (d, s, None).
Proof. intros H. unfold next_boot. rewrite H. reflexivity. Qed.

(* ---------- rollback loop ---------- *)
Lemma rollback_loop_bad key l : forall d s, bad (snd (rollback_loop key d s l)) = bad s.
Proof.
  induction l as [|x l IH]; intros d s; cbn; auto.
  pose proof (fall_back_bad key d s x). destruct (fall_back key d s x) as [d1 s1]. cbn in *.
  rewrite IH. auto.
Qed.

Lemma rollback_loop_cb key l : forall d s, cb (snd (rollback_loop key d s l)) = cb s.
Proof.
  induction l as [|x l IH]; intros d s; cbn; auto.
  pose proof (fall_back_cb key d s x). destruct (fall_back key d s x) as [d1 s1]. cbn in *.
  rewrite IH. auto.
Qed.

Lemma rollback_loop_sj key l : forall d s, sj (fst (rollback_loop key d s l)) = sj d.
Proof.
  induction l as [|x l IH]; intros d s; cbn; auto.
  pose proof (fall_back_sj key d s x). destruct (fall_back key d s x) as [d1 s1]. cbn in *.
  rewrite IH. auto.
Qed.

Lemma rollback_loop_saved key l : forall d s,
  pj d = JOk s -> pj (fst (rollback_loop key d s l)) = JOk (snd (rollback_loop key d s l)).
Proof.
  induction l as [|x l IH]; intros d s H; cbn; auto.
  pose proof (fall_back_saved key d s x). destruct (fall_back key d s x) as [d1 s1]. cbn in *.
  apply IH. auto.
Qed.

End Lemmas.
