(* SpecCalls.v — the refinement of SpecRefine.v lifted from PatchManager functions to the critical sections
   and the composite calls (check, update) of updater.rs, i.e. to what the C API runs.  The relation is taken
   on the disk as every critical section sees it (normalised for the running release), so it holds from any
   disk: a disk of another release, or with an unreadable state.json, is related to the empty abstract state. *)
From UV Require Import Base Codec Model PMLemmas Inv Ban Frame Spec SpecRefine.
Arguments N.eqb : simpl never.
Arguments N.ltb : simpl never.

Section Calls.
Variable sha : bytes -> bytes.
Variable sigok : string -> string -> string -> bool.
Variable zdec : bytes -> bytes.
Variable base : bytes.

Notation R := (R sha sigok).
Notation cs_next := (cs_next sha sigok).
Notation cs_start := (cs_start sha sigok).
Notation cs_failure := (cs_failure sha sigok).
Notation cs_init_recover := (cs_init_recover sha sigok).
Notation cs_rollback := (cs_rollback sha sigok).
Notation should_install := (should_install sha sigok).
Notation do_check := (do_check sha sigok).
Notation do_update := (do_update sha sigok zdec base).

Definition Rc (c : cfg) (d : disk) (a : ast) : Prop :=
  R (c_key c) (norm c d) (load_p (norm c d)) a.

Lemma Rc_intro c d s a :
  stable (c_rel c) d -> load_p d = s -> R (c_key c) d s a -> Rc c d a.
Proof. intros S E H. unfold Rc. rewrite (norm_id c d S), E. exact H. Qed.

(* a disk of another release (or without readable state.json) is the empty abstract state, whatever lies around *)
Lemma Rc_release_change c d has :
  ~ stable (c_rel c) d ->
  Rc c d {| a_sel := None; a_good := None; a_boot := None; a_ban := []; a_has := has |}.
Proof.
  intros NS. unfold Rc. destruct (norm_cases c d) as [E|E]; rewrite E.
  - exfalso. apply NS. rewrite <- E. apply norm_stable.
  - repeat split; cbn; auto; [apply Isame_empty|]. intros m [H|[H|[H|[]]]]; discriminate.
Qed.

(* R does not look at state.json *)
Lemma R_set_sj key d s a v : R key d s a -> R key (set_sj d v) s a.
Proof. intros (H1 & H2 & H3 & H4 & H5 & H6). repeat split; auto. Qed.

(* ---------- abstract counterparts of the critical sections ---------- *)
Definition a_current (a : ast) : option N := match a_boot a with Some b => Some b | None => a_good a end.

Definition a_should_install (a : ast) (n : N) : ast * should :=
  if inb n (a_ban a) then (a, ShBad)
  else let '(a', r) := a_query a in
       match r with
       | Some k => if N.eqb k n then (a', ShAlready) else (a', ShOk)
       | None => (a', ShOk)
       end.

Definition a_check (a : ast) (r : option resp) : ast * bool :=
  match r with
  | None => (a, false)
  | Some rs =>
      let a1 := match r_rb rs with Some l => a_rollback a l | None => a end in
      match r_patch rs with
      | None => (a1, false)
      | Some p => let '(a2, sh) := a_should_install a1 (p_num p) in
                  (a2, match sh with ShOk => true | _ => false end)
      end
  end.

(* [verified]: the download arrived, inflated against the base, and matched the advertised hash *)
Definition a_update (a : ast) (r : option resp) (verified : bool) : ast * ustatus :=
  match r with
  | None => (a, UError)
  | Some rs =>
      let a2 := match r_rb rs with Some l => a_rollback a l | None => a end in
      if negb (r_avail rs) then (a2, UNoUpdate)
      else match r_patch rs with
           | None => (a2, UError)
           | Some p =>
               let '(a3, sh) := a_should_install a2 (p_num p) in
               match sh with
               | ShBad => (a3, UBadPatch)
               | ShAlready => (a3, UNoUpdate)
               | ShOk =>
                   if verified
                   then if inb (p_num p) (a_ban a3) then (a3, UBadPatch)
                        else (a_install a3 (p_num p), UInstalled)
                   else (a3, UError)
               end
           end
  end.

(* ---------- the critical sections refine them ---------- *)
Lemma Rc_next c d a :
  Rc c d a -> Rc c (fst (cs_next c d)) (fst (a_query a)) /\ snd (cs_next c d) = snd (a_query a).
Proof.
  intros H. unfold Rc in H. unfold Model.cs_next.
  set (d0 := norm c d) in *.
  destruct (R_next_boot sha sigok (c_key c) d0 (load_p d0) a H) as [H1 H2].
  pose proof (next_boot_sj sha sigok (c_key c) d0 (load_p d0)) as Hsj.
  destruct (next_boot sha sigok (c_key c) d0 (load_p d0)) as [[d' s'] r] eqn:E. cbn [fst snd] in *.
  split; [|exact H2].
  apply Rc_intro with (s := s').
  - eapply stable_of_sj; [exact Hsj|]. apply norm_stable.
  - eapply next_boot_load. exact E.
  - exact H1.
Qed.

Lemma Rc_current c d a :
  Rc c d a -> Rc c (fst (cs_current c d)) a /\ snd (cs_current c d) = a_current a.
Proof.
  intros H. unfold Model.cs_current, a_current. cbn [fst snd]. split.
  - unfold Rc. rewrite norm_idem. exact H.
  - destruct H as (_ & Hg & Hb & _). rewrite Hb, Hg.
    destruct (cb (load_p (norm c d))); reflexivity.
Qed.

Lemma Rc_start c d a : Rc c d a -> Rc c (cs_start c d) (a_start a).
Proof.
  intros H. unfold Rc in H. unfold Model.cs_start. set (d0 := norm c d) in *.
  pose proof (R_start sha sigok (c_key c) d0 (load_p d0) a H) as H1. unfold pm_start in H1.
  pose proof (next_boot_sj sha sigok (c_key c) d0 (load_p d0)) as Hsj.
  destruct (next_boot sha sigok (c_key c) d0 (load_p d0)) as [[d1 s1] r] eqn:E. cbn [fst snd] in *.
  assert (S1 : stable (c_rel c) d1) by (eapply stable_of_sj; [exact Hsj|apply norm_stable]).
  destruct r as [n|]; cbn [fst snd] in H1.
  - apply Rc_intro with (s := {| lb := lb s1; nb := nb s1; cb := nb s1; bad := bad s1 |});
      [apply stable_set_pj; exact S1|reflexivity|exact H1].
  - apply Rc_intro with (s := s1); [exact S1|eapply next_boot_load; exact E|exact H1].
Qed.

Lemma Rc_success c d a : Rc c d a -> Rc c (fst (cs_success c d)) (a_success a).
Proof.
  intros H. unfold Rc in H. unfold Model.cs_success. set (d0 := norm c d) in *.
  pose proof (R_success sha sigok (c_key c) d0 (load_p d0) a H) as H1.
  unfold boot_success in *.
  destruct (cb (load_p d0)) as [b|] eqn:Ec; cbn [fst snd] in *.
  - apply Rc_intro with (s := {| lb := Some b; nb := nb (load_p d0); cb := None; bad := bad (load_p d0) |});
      [|reflexivity|exact H1].
    apply stable_set_pj. unfold sweep. apply stable_set_junk, stable_set_arts, norm_stable.
  - apply Rc_intro with (s := load_p d0); [apply norm_stable|reflexivity|exact H1].
Qed.

Lemma Rc_failure_like c d a (mk : N -> event) :
  Rc c d a ->
  Rc c (match cb (load_p (norm c d)) with
        | None => norm c d
        | Some b => queue_event c (fst (boot_failure sha sigok (c_key c) (norm c d) (load_p (norm c d)) (m_num b))) (mk (m_num b))
        end) (a_failure a).
Proof.
  intros H. unfold Rc in H. set (d0 := norm c d) in *.
  destruct (cb (load_p d0)) as [b|] eqn:Ec.
  - pose proof (R_failure sha sigok (c_key c) d0 (load_p d0) a b H Ec) as H1.
    pose proof (boot_failure_sj sha sigok (c_key c) d0 (load_p d0) (m_num b)) as Hsj.
    pose proof (boot_failure_saved sha sigok (c_key c) d0 (load_p d0) (m_num b)) as Hsv.
    destruct (boot_failure sha sigok (c_key c) d0 (load_p d0) (m_num b)) as [d1 s1]. cbn [fst snd] in *.
    assert (S1 : stable (c_rel c) d1) by (eapply stable_of_sj; [exact Hsj|apply norm_stable]).
    apply Rc_intro with (s := s1).
    + apply queue_event_stable. exact S1.
    + unfold queue_event. rewrite load_set_sj. apply load_of_pj. exact Hsv.
    + unfold queue_event. apply R_set_sj. exact H1.
  - unfold a_failure. destruct H as (Hs & Hg & Hb & Hr). rewrite Hb, Ec. cbn.
    apply Rc_intro with (s := load_p d0); auto; [apply norm_stable|]. repeat split; auto; apply Hr.
Qed.

Lemma Rc_failure c d a : Rc c d a -> Rc c (fst (cs_failure c d)) (a_failure a).
Proof.
  intros H. unfold Model.cs_failure.
  pose proof (Rc_failure_like c d a (fun n => mk_event c EvInstallFailure n MsgEngine) H) as H1.
  destruct (cb (load_p (norm c d))) as [b|]; cbn [fst snd].
  - destruct (boot_failure sha sigok (c_key c) (norm c d) (load_p (norm c d)) (m_num b)). exact H1.
  - exact H1.
Qed.

Lemma Rc_init_recover c d a : Rc c d a -> Rc c (cs_init_recover c d) (a_failure a).
Proof.
  intros H. unfold Model.cs_init_recover.
  pose proof (Rc_failure_like c d a (fun n => mk_event c EvInstallFailure n MsgInit) H) as H1.
  destruct (cb (load_p (norm c d))) as [b|].
  - destruct (boot_failure sha sigok (c_key c) (norm c d) (load_p (norm c d)) (m_num b)). exact H1.
  - exact H1.
Qed.

Lemma Rc_rollback c d a l : Rc c d a -> Rc c (cs_rollback c d l) (a_rollback a l).
Proof.
  intros H. unfold Rc in H. unfold Model.cs_rollback. set (d0 := norm c d) in *.
  pose proof (R_rollback sha sigok (c_key c) l d0 (load_p d0) a H) as H1.
  pose proof (rollback_loop_sj sha sigok (c_key c) l d0 (load_p d0)) as Hsj.
  assert (Hpj : pj d0 = JOk (load_p d0) \/ True) by auto.
  apply Rc_intro with (s := snd (rollback_loop sha sigok (c_key c) d0 (load_p d0) l)); auto.
  - eapply stable_of_sj; [exact Hsj|]. apply norm_stable.
  - destruct l as [|x l']; [reflexivity|].
    (* after at least one fall back the state has been saved *)
    cbn [Model.rollback_loop].
    pose proof (fall_back_saved sha sigok (c_key c) d0 (load_p d0) x) as Hs1.
    destruct (fall_back sha sigok (c_key c) d0 (load_p d0) x) as [d1 s1]. cbn [fst snd] in *.
    apply load_of_pj. apply rollback_loop_saved. exact Hs1.
Qed.

Lemma Rc_clear c d a : Rc c d a -> Rc c (cs_clear_events c d) a.
Proof.
  intros H. unfold Rc in H. unfold Model.cs_clear_events. set (d0 := norm c d) in *.
  apply Rc_intro with (s := load_p d0).
  - destruct (norm_stable c d) as [s0 [E1 E2]]. fold d0 in E1. unfold load_s. rewrite E1.
    exists {| rel := rel s0; evq := [] |}. split; [reflexivity|exact E2].
  - apply load_set_sj.
  - apply R_set_sj. exact H.
Qed.

Lemma Rc_copy c d a : Rc c d a -> Rc c (fst (cs_copy_events c d)) a.
Proof. intros H. unfold Model.cs_copy_events. cbn [fst]. unfold Rc. rewrite norm_idem. exact H. Qed.

Lemma Rc_should_install c d a n :
  Rc c d a ->
  Rc c (fst (should_install c d n)) (fst (a_should_install a n)) /\
  snd (should_install c d n) = snd (a_should_install a n).
Proof.
  intros H. unfold Model.should_install, a_should_install, cs_is_bad.
  assert (Hn : a_ban a = bad (load_p (norm c d))) by apply H.
  rewrite Hn. destruct (inb n (bad (load_p (norm c d)))) eqn:Eb; cbn [fst snd].
  - split; [|reflexivity]. unfold Rc. rewrite norm_idem. exact H.
  - assert (H0 : Rc c (norm c d) a) by (unfold Rc; rewrite norm_idem; exact H).
    destruct (Rc_next c (norm c d) a H0) as [H1 H2].
    destruct (cs_next c (norm c d)) as [d2 r]. destruct (a_query a) as [a' r']. cbn [fst snd] in *. subst r'.
    destruct r as [k|]; [destruct (N.eqb k n)|]; cbn [fst snd]; auto.
Qed.

Lemma Rc_check c d a ch r :
  Rc c d a ->
  Rc c (fst (fst (do_check c d ch r))) (fst (a_check a r)) /\
  snd (fst (do_check c d ch r)) = snd (a_check a r).
Proof.
  intros H. unfold Model.do_check, a_check.
  destruct r as [rs|]; cbn [fst snd]; [|auto].
  assert (H1 : Rc c (match r_rb rs with Some l => cs_rollback c d l | None => d end)
                    (match r_rb rs with Some l => a_rollback a l | None => a end)).
  { destruct (r_rb rs); [apply Rc_rollback|]; exact H. }
  destruct (r_patch rs) as [p|]; cbn [fst snd]; [|auto].
  destruct (Rc_should_install c _ _ (p_num p) H1) as [H2 H3].
  destruct (should_install c _ (p_num p)) as [d2 sh]. destruct (a_should_install _ (p_num p)) as [a2 sh'].
  cbn [fst snd] in *. subst sh'. auto.
Qed.

(* the disk on which the install section of an update runs (after event flush, rollbacks, the two checks) *)
Definition pre_install_disk (c : cfg) (d : disk) (rs : resp) (p : patch) : disk :=
  let d1 := cs_clear_events c (fst (cs_copy_events c d)) in
  let d2 := match r_rb rs with Some l => cs_rollback c d1 l | None => d1 end in
  norm c (fst (should_install c d2 (p_num p))).

Definition verified (dl : option bytes) (h : string) : bool :=
  match dl with
  | Some b => match inflate zdec base b with Some out => hash_ok sha out h | None => false end
  | None => false
  end.

(* what the environment guarantees when an install happens (as op_ok in SpecRefine.v) *)
Definition install_ok (c : cfg) (d : disk) (r : option resp) (dl : option bytes) : Prop :=
  forall rs p b out, r = Some rs -> r_patch rs = Some p -> dl = Some b -> inflate zdec base b = Some out ->
    let d3 := pre_install_disk c d rs p in
    let new := {| m_num := p_num p; m_size := blen out; m_hash := p_hash p; m_sig := p_sig p |} in
    consistent (load_p d3) new /\ validate sha sigok (c_key c) (put_art d3 (p_num p) out) new = true.

Lemma Rc_install c d a p out :
  Rc c d a ->
  (let new := {| m_num := p_num p; m_size := blen out; m_hash := p_hash p; m_sig := p_sig p |} in
   consistent (load_p (norm c d)) new /\ validate sha sigok (c_key c) (put_art (norm c d) (p_num p) out) new = true) ->
  Rc c (fst (cs_install c d p out))
       (if inb (p_num p) (a_ban a) then a else a_install a (p_num p)) /\
  snd (cs_install c d p out) = if inb (p_num p) (a_ban a) then UBadPatch else UInstalled.
Proof.
  intros H [C V]. unfold Model.cs_install. unfold Rc in H. set (d0 := norm c d) in *.
  assert (Hn : a_ban a = bad (load_p d0)) by apply H. rewrite Hn.
  destruct (inb (p_num p) (bad (load_p d0))) eqn:Eb; cbn [fst snd].
  - split; [|reflexivity]. apply Rc_intro with (s := load_p d0); auto. apply norm_stable.
  - pose proof (R_add_patch sha sigok (c_key c) d0 (load_p d0) a (p_num p) out (p_hash p) (p_sig p) H C V) as H1.
    unfold add_patch in *. cbn [fst snd] in *. split; [|reflexivity].
    match goal with |- Rc c (save_p ?dd ?ss) _ => apply Rc_intro with (s := ss) end; auto.
    apply stable_set_pj.
    destruct (nb (load_p d0)); [destruct (lb (load_p d0))|]; try (apply stable_set_arts, norm_stable).
    match goal with |- context [if ?cnd then _ else _] => destruct cnd end;
      repeat apply stable_set_arts; apply norm_stable.
Qed.

Theorem Rc_update c d a ch r dl :
  Rc c d a -> install_ok c d r dl ->
  let v := match r with
           | Some rs => match r_patch rs with Some p => verified dl (p_hash p) | None => false end
           | None => false
           end in
  Rc c (fst (fst (do_update c d ch r dl))) (fst (a_update a r v)) /\
  snd (fst (do_update c d ch r dl)) = snd (a_update a r v).
Proof.
  intros H Hok v. unfold Model.do_update, a_update.
  pose proof (Rc_copy c d a H) as H0.
  destruct (cs_copy_events c d) as [d0 evs] eqn:Ecp. cbn [fst] in H0.
  pose proof (Rc_clear c d0 a H0) as H1.
  destruct r as [rs|]; cbn [fst snd]; [|auto].
  assert (H2 : Rc c (match r_rb rs with Some l => cs_rollback c (cs_clear_events c d0) l | None => cs_clear_events c d0 end)
                    (match r_rb rs with Some l => a_rollback a l | None => a end)).
  { destruct (r_rb rs); [apply Rc_rollback|]; exact H1. }
  destruct (negb (r_avail rs)); cbn [fst snd]; [auto|].
  destruct (r_patch rs) as [p|] eqn:Ep; cbn [fst snd]; [|auto].
  destruct (Rc_should_install c _ _ (p_num p) H2) as [H3 H4].
  unfold install_ok, pre_install_disk in Hok. rewrite Ecp in Hok. cbn [fst] in Hok.
  destruct (should_install c _ (p_num p)) as [d3 sh] eqn:Esh. destruct (a_should_install _ (p_num p)) as [a3 sh'].
  cbn [fst snd] in *. subst sh'.
  destruct sh; cbn [fst snd]; auto.
  subst v. unfold verified.
  destruct dl as [bdl|]; cbn [fst snd]; [|auto].
  destruct (inflate zdec base bdl) as [out|] eqn:Ei; cbn [fst snd]; [|auto].
  destruct (hash_ok sha out (p_hash p)); cbn [fst snd]; [|auto].
  specialize (Hok rs p bdl out eq_refl Ep eq_refl Ei). rewrite Esh in Hok. cbn [fst] in Hok.
  destruct (Rc_install c d3 a3 p out H3 Hok) as [H5 H6].
  destruct (cs_install c d3 p out) as [d4 st]. cbn [fst snd] in *. subst st.
  destruct (inb (p_num p) (a_ban a3)); cbn [fst snd]; auto.
Qed.

(* ---------- the whole step function on lifecycle calls ---------- *)
Definition lifecycle (o : op) : bool :=
  match o with
  | ONextNum | ONextPath | OCurNum | OStart | OSuccess | OFailure | OCheck _ _ | OUpdate _ _ _ => true
  | _ => false
  end.

Definition onum0 (r : option N) : N := match r with Some n => n | None => 0 end.

Definition a_world_step (a : ast) (o : op) (v : bool) : ast * out :=
  match o with
  | ONextNum => let '(a', r) := a_query a in (a', RNum (onum0 r))
  | ONextPath => let '(a', r) := a_query a in (a', RPath r)
  | OCurNum => (a, RNum (onum0 (a_current a)))
  | OStart => (a_start a, RUnit)
  | OSuccess => (a_success a, RUnit)
  | OFailure => (a_failure a, RUnit)
  | OCheck _ r => let '(a', b) := a_check a r in (a', RBool b)
  | OUpdate _ r _ => let '(a', u) := a_update a r v in (a', RStatus (status_code u))
  | _ => (a, RUnit)
  end.

Definition op_verified (o : op) : bool :=
  match o with
  | OUpdate _ (Some rs) dl => match r_patch rs with Some p => verified dl (p_hash p) | None => false end
  | _ => false
  end.

Definition op_install_ok (c : cfg) (d : disk) (o : op) : Prop :=
  match o with OUpdate _ r dl => install_ok c d r dl | _ => True end.

Theorem step_refines (w : world) (c : cfg) (a : ast) (o : op) :
  w_cfg w = Some c -> lifecycle o = true -> Rc c (w_disk w) a -> op_install_ok c (w_disk w) o ->
  let '(w', x, _) := step sha sigok zdec base w o in
  w_cfg w' = Some c /\
  Rc c (w_disk w') (fst (a_world_step a o (op_verified o))) /\
  x = snd (a_world_step a o (op_verified o)).
Proof.
  intros Hc Hl H Hok. unfold Model.step. rewrite Hc.
  destruct o; try discriminate; cbn [a_world_step op_verified op_install_ok] in *.
  - destruct (Rc_next c (w_disk w) a H) as [H1 H2].
    destruct (cs_next c (w_disk w)) as [d' r]. destruct (a_query a) as [a' r']. cbn [fst snd] in *. subst. auto.
  - destruct (Rc_next c (w_disk w) a H) as [H1 H2].
    destruct (cs_next c (w_disk w)) as [d' r]. destruct (a_query a) as [a' r']. cbn [fst snd] in *. subst. auto.
  - destruct (Rc_current c (w_disk w) a H) as [H1 H2].
    destruct (cs_current c (w_disk w)) as [d' r]. cbn [fst snd] in *. subst. auto.
  - cbn [fst snd]. split; [reflexivity|]. split; [apply Rc_start; exact H|reflexivity].
  - pose proof (Rc_success c (w_disk w) a H) as H1.
    destruct (Model.cs_success c (w_disk w)) as [d' l]. cbn [fst snd] in *. auto.
  - pose proof (Rc_failure c (w_disk w) a H) as H1.
    destruct (cs_failure c (w_disk w)) as [d' b]. cbn [fst snd] in *. auto.
  - destruct (Rc_check c (w_disk w) a ch r H) as [H1 H2].
    destruct (do_check c (w_disk w) ch r) as [[d' b] l]. destruct (a_check a r) as [a' b']. cbn [fst snd] in *. subst. auto.
  - destruct (Rc_update c (w_disk w) a ch r dl H Hok) as [H1 H2]. cbn zeta in H1, H2.
    assert (Ev : match r with
                 | Some rs => match r_patch rs with Some p => verified dl (p_hash p) | None => false end
                 | None => false
                 end =
                 match r with
                 | Some rs => match r_patch rs with Some p => verified dl (p_hash p) | None => false end
                 | None => false
                 end) by reflexivity.
    destruct r as [rs|]; cbn [op_verified] in *.
    + destruct (do_update c (w_disk w) ch (Some rs) dl) as [[d' u] l].
      destruct (a_update a (Some rs) _) as [a' u']. cbn [fst snd] in *. subst. auto.
    + destruct (do_update c (w_disk w) ch None dl) as [[d' u] l].
      destruct (a_update a None false) as [a' u'] eqn:Ea. cbn [fst snd] in *. subst. auto.
Qed.

(* a restart (process end, then init of the same configuration) is "the booting patch, if any, has failed" *)
Theorem restart_refines (w : world) (c : cfg) (a : ast) relv y :
  cfg_of relv y = Some c -> Rc c (w_disk w) a ->
  let w1 := fst (fst (step sha sigok zdec base w OKill)) in
  let '(w2, x, _) := step sha sigok zdec base w1 (OInit relv y true) in
  w_cfg w2 = Some c /\ Rc c (w_disk w2) (a_failure a) /\ x = RBool true.
Proof.
  intros Hc H. cbn [Model.step fst w_cfg w_disk]. rewrite Hc. cbn [negb w_cfg w_disk].
  split; [reflexivity|]. split; [|reflexivity]. apply Rc_init_recover. exact H.
Qed.

End Calls.
