(* WireTie.v — the JSON readers of the model (JsonText.resp_schema / Json.v, JsonState.v, JsonSj.v) against the struct
   definitions in the current sources (gen/WireFormats.v, regenerated on every run): the same member names, and the same
   members required / optional / defaulted.  A renamed or added member, a new #[serde(default)] or deny_unknown_fields, a
   changed reader or writer function breaks [wire_formats_from_source]. *)
From Coq Require Import List String Bool.
From UV Require Import Base Codec Model Json JsonText JsonState JsonSj JsonTextExist.
From UVG Require Import WireFormats.
Import ListNotations.

Definition model_wire_structs : list (string * list string * list (string * string)) :=
  [ ("SerializedState", [], [("queued_events", "req"); ("release_version", "req")]);
    ("PatchEvent", [], [("app_id", "req"); ("arch", "req"); ("message", "opt"); ("patch_number", "req"); ("platform", "req");
                        ("release_version", "req"); ("timestamp", "req"); ("type", "req")]);
    ("PatchesState", [], [("currently_booting_patch", "opt"); ("known_bad_patches", "req"); ("last_booted_patch", "opt");
                          ("next_boot_patch", "opt")]);
    ("PatchMetadata", [], [("hash", "req"); ("number", "req"); ("signature", "opt"); ("size", "req")]);
    ("PatchCheckResponse", [], [("patch", "default"); ("patch_available", "req"); ("rolled_back_patch_numbers", "default")]);
    ("Patch", [], [("download_url", "req"); ("hash", "req"); ("hash_signature", "default"); ("number", "req")]) ]%string.

Definition smem (x : string) (l : list string) : bool := existsb (String.eqb x) l.
Definition same_set (a b : list string) : bool :=
  forallb (fun x => smem x b) a && forallb (fun x => smem x a) b && Nat.eqb (List.length a) (List.length b).
Definition names_of (n : string) : list string :=
  match find (fun r => String.eqb n (fst (fst r))) model_wire_structs with
  | Some r => map fst (snd r)
  | None => []
  end.
Definition schema_keys (sc : schema) : list string := match sc with SStruct fs => map fst fs | SLeaf => [] end.

(* the key tables the model's readers work from are the member names of the structs *)
Lemma readers_use_these_names :
  same_set (names_of "SerializedState") sj_keys = true /\
  same_set (names_of "PatchEvent") ev_keys = true /\
  same_set (names_of "PatchEvent") (schema_keys event_schema) = true /\
  same_set (names_of "PatchesState") (schema_keys pstate_schema) = true /\
  same_set (names_of "PatchMetadata") (schema_keys meta_schema) = true /\
  same_set (names_of "PatchCheckResponse") (schema_keys resp_schema) = true /\
  same_set (names_of "Patch") (schema_keys patch_schema) = true.
Proof. vm_compute. repeat split. Qed.

(* required / optional as the table says, shown on the readers themselves: each document lacks exactly one member *)
Definition evdoc (skip : string) : json :=
  JObj (filter (fun p => negb (String.eqb (fst p) skip))
    [("app_id", JStr "a"); ("arch", JStr "x"); ("type", JStr "__patch_download__"); ("patch_number", JNum (JInt false 1));
     ("platform", JStr "l"); ("release_version", JStr "r"); ("timestamp", JNum (JInt false 1)); ("message", JNull)]%string).
Definition metadoc (skip : string) : json :=
  JObj (filter (fun p => negb (String.eqb (fst p) skip))
    [("number", JNum (JInt false 1)); ("size", JNum (JInt false 1)); ("hash", JStr "h"); ("signature", JNull)]%string).
Definition psdoc (skip : string) : json :=
  JObj (filter (fun p => negb (String.eqb (fst p) skip))
    [("last_booted_patch", JNull); ("next_boot_patch", JNull); ("currently_booting_patch", JNull); ("known_bad_patches", JArr [])]%string).
Definition sjdoc (skip : string) : json :=
  JObj (filter (fun p => negb (String.eqb (fst p) skip)) [("release_version", JStr "r"); ("queued_events", JArr [])]%string).
Definition patchdoc (skip : string) : json :=
  JObj (filter (fun p => negb (String.eqb (fst p) skip))
    [("number", JNum (JInt false 1)); ("hash", JStr "h"); ("download_url", JStr "u"); ("hash_signature", JNull)]%string).
Definition respdoc (skip : string) : json :=
  JObj (filter (fun p => negb (String.eqb (fst p) skip))
    [("patch_available", JBool false); ("patch", JNull); ("rolled_back_patch_numbers", JNull)]%string).

Definition accepts {A} (f : json -> option A) (j : json) : bool := match f j with Some _ => true | None => false end.
Definition kind_ok {A} (f : json -> option A) (doc : string -> json) (fld : string * string) : bool :=
  let acc := accepts f (doc (fst fld)) in
  if String.eqb (snd fld) "req" then negb acc else acc.
Definition kinds_ok {A} (n : string) (f : json -> option A) (doc : string -> json) : bool :=
  accepts f (doc "") &&
  match find (fun r => String.eqb n (fst (fst r))) model_wire_structs with
  | Some r => forallb (kind_ok f doc) (snd r)
  | None => false
  end.

Lemma readers_require_what_the_structs_require :
  kinds_ok "SerializedState" fstate_of_json sjdoc = true /\
  kinds_ok "PatchEvent" as_fevent evdoc = true /\
  kinds_ok "PatchesState" pstate_of_json psdoc = true /\
  kinds_ok "PatchMetadata" as_meta metadoc = true /\
  kinds_ok "PatchCheckResponse" resp_of_json respdoc = true /\
  kinds_ok "Patch" as_patch patchdoc = true.
Proof. vm_compute. repeat split. Qed.

(* unknown members are accepted by every reader (no deny_unknown_fields anywhere) *)
Lemma readers_ignore_unknown_members :
  accepts fstate_of_json (JObj [("zz", JNull); ("release_version", JStr "r"); ("queued_events", JArr [])]%string) = true /\
  accepts pstate_of_json (JObj [("zz", JNull); ("known_bad_patches", JArr [])]%string) = true /\
  accepts resp_of_json (JObj [("zz", JNull); ("patch_available", JBool false)]%string) = true.
Proof. vm_compute. repeat split. Qed.

Theorem wire_formats_from_source :
  gen_wire_structs = model_wire_structs /\ gen_state_file_reader = "from_reader"%string /\ gen_state_file_writer = "to_writer_pretty"%string.
Proof. repeat split; reflexivity. Qed.
