(* Ban.v — within one release the ban list only grows, and the release recorded on disk is stable. *)
From UV Require Import Base Codec Model PMLemmas Inv.
Arguments N.eqb : simpl never.

Section Ban.
Variable sha : bytes -> bytes.
Variable sigok : string -> string -> string -> bool.
Variable zdec : bytes -> bytes.
Variable base : bytes.

Notation validate := (validate sha sigok).
Notation fall_back := (fall_back sha sigok).
Notation next_boot := (next_boot sha sigok).
Notation boot_failure := (boot_failure sha sigok).
Notation rollback_loop := (rollback_loop sha sigok).
Notation cs_next := (cs_next sha sigok).
Notation cs_start := (cs_start sha sigok).
Notation cs_failure := (cs_failure sha sigok).
Notation cs_init_recover := (cs_init_recover sha sigok).
Notation cs_rollback := (cs_rollback sha sigok).
Notation should_install := (should_install sha sigok).
Notation do_check := (do_check sha sigok).
Notation do_update := (do_update sha sigok zdec base).
Notation step := (step sha sigok zdec base).

(* BM r d d': d' is still a state of release r and bans at least what d bans *)
Definition BM (r : string) (d d' : disk) : Prop :=
  stable r d' /\ incl (bad (load_p d)) (bad (load_p d')).

Lemma BM_refl r d : stable r d -> BM r d d.
Proof. intros H. split; auto. apply incl_refl. Qed.

Lemma BM_trans r d1 d2 d3 : BM r d1 d2 -> BM r d2 d3 -> BM r d1 d3.
Proof. intros [_ H1] [S H2]. split; auto. eapply incl_tran; eauto. Qed.

Lemma stable_set_pj r d v : stable r d -> stable r (set_pj d v).
Proof. intros [s H]. exists s. exact H. Qed.
Lemma stable_set_arts r d a : stable r d -> stable r (set_arts d a).
Proof. intros [s H]. exists s. exact H. Qed.
Lemma stable_set_junk r d j : stable r d -> stable r (set_junk d j).
Proof. intros [s H]. exists s. exact H. Qed.
Lemma stable_of_sj r d d' : sj d' = sj d -> stable r d -> stable r d'.
Proof. intros E [s H]. exists s. rewrite E. exact H. Qed.

Lemma cs_next_BM c d : stable (c_rel c) d -> BM (c_rel c) d (fst (cs_next c d)).
Proof.
  intros S. unfold cs_next. rewrite (norm_id c d S).
  pose proof (next_boot_bad sha sigok (c_key c) d (load_p d)) as Hb.
  pose proof (next_boot_sj sha sigok (c_key c) d (load_p d)) as Hs.
  destruct (next_boot (c_key c) d (load_p d)) as [[d1 s1] r] eqn:E. cbn in *.
  split; [eapply stable_of_sj; eauto|].
  rewrite (next_boot_load _ _ _ _ _ _ _ E), Hb. apply incl_refl.
Qed.

Lemma cs_start_BM c d : stable (c_rel c) d -> BM (c_rel c) d (cs_start c d).
Proof.
  intros S. unfold cs_start. rewrite (norm_id c d S).
  pose proof (next_boot_bad sha sigok (c_key c) d (load_p d)) as Hb.
  pose proof (next_boot_sj sha sigok (c_key c) d (load_p d)) as Hs.
  destruct (next_boot (c_key c) d (load_p d)) as [[d1 s1] r] eqn:E. cbn in *.
  destruct r as [r0|].
  - split; [apply stable_set_pj; eapply stable_of_sj; eauto|].
    rewrite load_save. cbn. rewrite Hb. apply incl_refl.
  - split; [eapply stable_of_sj; eauto|].
    rewrite (next_boot_load _ _ _ _ _ _ _ E), Hb. apply incl_refl.
Qed.

Lemma cs_success_BM c d : stable (c_rel c) d -> BM (c_rel c) d (fst (cs_success c d)).
Proof.
  intros S. unfold cs_success. rewrite (norm_id c d S).
  destruct (cb (load_p d)) as [b|] eqn:E; cbn; [|apply BM_refl; auto].
  unfold boot_success. rewrite E. cbn. split.
  - apply stable_set_pj. unfold sweep. apply stable_set_junk, stable_set_arts. exact S.
  - apply incl_refl.
Qed.

Lemma queue_event_stable c d e : stable (c_rel c) d -> stable (c_rel c) (queue_event c d e).
Proof.
  intros [s [H1 H2]]. unfold queue_event, load_s. rewrite H1. cbn. eexists. split; [reflexivity|]. exact H2.
Qed.

Lemma cs_failure_BM c d : stable (c_rel c) d -> BM (c_rel c) d (fst (cs_failure c d)).
Proof.
  intros S. unfold cs_failure. rewrite (norm_id c d S).
  destruct (cb (load_p d)) as [b|] eqn:E; cbn; [|apply BM_refl; auto].
  pose proof (boot_failure_saved sha sigok (c_key c) d (load_p d) (m_num b)) as H2.
  pose proof (boot_failure_sj sha sigok (c_key c) d (load_p d) (m_num b)) as H3.
  pose proof (boot_failure_bad_mono sha sigok (c_key c) d (load_p d) (m_num b)) as H4.
  destruct (boot_failure (c_key c) d (load_p d) (m_num b)) as [d1 s1]. cbn in *.
  split.
  - apply queue_event_stable. eapply stable_of_sj; eauto.
  - unfold queue_event. rewrite load_set_sj, (load_of_pj _ _ H2). intros k Hk. apply H4, Hk.
Qed.

Lemma cs_init_recover_BM c d : stable (c_rel c) d -> BM (c_rel c) d (cs_init_recover c d).
Proof.
  intros S. unfold cs_init_recover. rewrite (norm_id c d S).
  destruct (cb (load_p d)) as [b|] eqn:E; cbn; [|apply BM_refl; auto].
  pose proof (boot_failure_saved sha sigok (c_key c) d (load_p d) (m_num b)) as H2.
  pose proof (boot_failure_sj sha sigok (c_key c) d (load_p d) (m_num b)) as H3.
  pose proof (boot_failure_bad_mono sha sigok (c_key c) d (load_p d) (m_num b)) as H4.
  destruct (boot_failure (c_key c) d (load_p d) (m_num b)) as [d1 s1]. cbn in *.
  split.
  - apply queue_event_stable. eapply stable_of_sj; eauto.
  - unfold queue_event. rewrite load_set_sj, (load_of_pj _ _ H2). intros k Hk. apply H4, Hk.
Qed.

Lemma cs_rollback_BM c d l : stable (c_rel c) d -> BM (c_rel c) d (cs_rollback c d l).
Proof.
  intros S. unfold cs_rollback. rewrite (norm_id c d S).
  destruct l as [|x l]; [apply BM_refl; auto|].
  split.
  - eapply stable_of_sj; [apply rollback_loop_sj|exact S].
  - rewrite rollback_loop_load by discriminate. rewrite rollback_loop_bad. apply incl_refl.
Qed.

Lemma should_install_BM c d n : stable (c_rel c) d -> BM (c_rel c) d (fst (should_install c d n)).
Proof.
  intros S. unfold should_install. cbn. rewrite (norm_id c d S).
  destruct (inb n (bad (load_p d))); cbn; [apply BM_refl; auto|].
  pose proof (cs_next_BM c d S) as H1.
  destruct (cs_next c d) as [d2 r]. cbn in *.
  destruct r as [k|]; [destruct (N.eqb k n)|]; exact H1.
Qed.

Lemma cs_clear_events_BM c d : stable (c_rel c) d -> BM (c_rel c) d (cs_clear_events c d).
Proof.
  intros S. unfold cs_clear_events. rewrite (norm_id c d S). destruct S as [s [H1 H2]]. split.
  - unfold load_s. rewrite H1. eexists. split; [reflexivity|]. exact H2.
  - rewrite load_set_sj. apply incl_refl.
Qed.

Lemma cs_copy_events_BM c d : stable (c_rel c) d -> BM (c_rel c) d (fst (cs_copy_events c d)).
Proof. intros S. cbn. rewrite (norm_id c d S). apply BM_refl; auto. Qed.

Lemma cs_install_BM c d p b : stable (c_rel c) d -> BM (c_rel c) d (fst (cs_install c d p b)).
Proof.
  intros S. unfold cs_install. rewrite (norm_id c d S).
  destruct (inb (p_num p) (bad (load_p d))); cbn; [apply BM_refl; auto|].
  split; [|apply incl_refl].
  apply stable_set_pj.
  destruct (nb (load_p d)) as [x|]; [destruct (lb (load_p d)) as [l|]|];
    repeat match goal with |- context [if ?x then _ else _] => destruct x end;
    repeat apply stable_set_arts; exact S.
Qed.

Local Opaque Model.cs_next Model.cs_start Model.cs_success Model.cs_failure Model.cs_init_recover
      Model.cs_rollback Model.should_install Model.cs_install Model.cs_copy_events
      Model.cs_clear_events Model.inflate Model.hash_ok.

Lemma do_check_BM c d ch r : stable (c_rel c) d -> BM (c_rel c) d (fst (fst (do_check c d ch r))).
Proof.
  intros S. unfold do_check. destruct r as [rs|]; cbn; [|apply BM_refl; auto].
  assert (H1 : BM (c_rel c) d (match r_rb rs with Some l => cs_rollback c d l | None => d end))
    by (destruct (r_rb rs); [apply cs_rollback_BM|apply BM_refl]; auto).
  destruct (r_patch rs) as [p|]; cbn; auto.
  pose proof (should_install_BM c _ (p_num p) (proj1 H1)) as H2.
  destruct (should_install c _ (p_num p)). cbn in *. eapply BM_trans; eauto.
Qed.

Lemma do_update_BM c d ch r dl : stable (c_rel c) d -> BM (c_rel c) d (fst (fst (do_update c d ch r dl))).
Proof.
  intros S. unfold do_update.
  pose proof (cs_copy_events_BM c d S) as H0.
  destruct (cs_copy_events c d) as [d0 evs]. cbn in H0.
  pose proof (BM_trans _ _ _ _ H0 (cs_clear_events_BM c d0 (proj1 H0))) as H1.
  destruct r as [rs|]; cbn; auto.
  assert (H2 : BM (c_rel c) d (match r_rb rs with Some l => cs_rollback c (cs_clear_events c d0) l
                                    | None => cs_clear_events c d0 end)).
  { destruct (r_rb rs); auto. eapply BM_trans; [exact H1|]. apply cs_rollback_BM. exact (proj1 H1). }
  destruct (negb (r_avail rs)); cbn; auto.
  destruct (r_patch rs) as [p|]; cbn; auto.
  pose proof (should_install_BM c _ (p_num p) (proj1 H2)) as H3.
  destruct (should_install c _ (p_num p)) as [d3 sh]. cbn in H3.
  pose proof (BM_trans _ _ _ _ H2 H3) as H3'.
  destruct sh; cbn; auto.
  destruct dl as [bdl|]; cbn; auto.
  destruct (inflate zdec base bdl) as [out|]; cbn; auto.
  destruct (hash_ok sha out (p_hash p)); cbn; auto.
  pose proof (cs_install_BM c d3 p out (proj1 H3')) as H4.
  destruct (cs_install c d3 p out) as [d4 st]. cbn in *. eapply BM_trans; eauto.
Qed.

Local Opaque Model.do_check Model.do_update.

(* an op is "within release r" if the process (when initialised) runs r and an init asks for r;
   state-file damage is excluded (C02: "state files are not damaged from outside") *)
Definition within (r : string) (w : world) (o : op) : Prop :=
  (forall c, w_cfg w = Some c -> c_rel c = r) /\
  match o with
  | OInit relv _ _ => relv = r
  | ODamage (DSetPj _) | ODamage (DSetSj _) => False
  | _ => True
  end.

Lemma cfg_of_rel relv y c : cfg_of relv y = Some c -> c_rel c = relv.
Proof. destruct y; cbn; [discriminate|]. intros H. injection H as <-. reflexivity. Qed.

Theorem step_BM r w o :
  within r w o -> stable r (w_disk w) ->
  BM r (w_disk w) (w_disk (fst (fst (step w o)))) /\
  (forall c, w_cfg (fst (fst (step w o))) = Some c -> c_rel c = r).
Proof.
  intros [Hc Ho] S. destruct w as [d cf]. cbn in *.
  destruct o; cbn.
  - (* init *)
    destruct (cfg_of relv y) as [c|] eqn:Ec; cbn; [|split; [apply BM_refl; auto|exact Hc]].
    destruct paths_ok; cbn; [|split; [apply BM_refl; auto|exact Hc]].
    destruct cf as [c0|]; cbn; [split; [apply BM_refl; auto|exact Hc]|].
    apply cfg_of_rel in Ec. rewrite Ho in Ec. split.
    + rewrite <- Ec. apply cs_init_recover_BM. rewrite Ec. exact S.
    + intros c1 E. injection E as <-. exact Ec.
  - split; [apply BM_refl; auto|discriminate].
  - destruct cf as [c|]; cbn; [|split; [apply BM_refl; auto|exact Hc]].
    pose proof (Hc c eq_refl) as <-.
    pose proof (cs_next_BM c d S). destruct (cs_next c d). cbn in *. split; auto.
  - destruct cf as [c|]; cbn; [|split; [apply BM_refl; auto|exact Hc]].
    pose proof (Hc c eq_refl) as <-.
    pose proof (cs_next_BM c d S). destruct (cs_next c d). cbn in *. split; auto.
  - destruct cf as [c|]; cbn; [|split; [apply BM_refl; auto|exact Hc]].
    pose proof (Hc c eq_refl) as <-. rewrite (norm_id c d S). split; [apply BM_refl; auto|exact Hc].
  - destruct cf as [c|]; cbn; [|split; [apply BM_refl; auto|exact Hc]].
    pose proof (Hc c eq_refl) as <-. split; [apply cs_start_BM; auto|exact Hc].
  - destruct cf as [c|]; cbn; [|split; [apply BM_refl; auto|exact Hc]].
    pose proof (Hc c eq_refl) as <-.
    pose proof (cs_success_BM c d S). destruct (cs_success c d). cbn in *. split; auto.
  - destruct cf as [c|]; cbn; [|split; [apply BM_refl; auto|exact Hc]].
    pose proof (Hc c eq_refl) as <-.
    pose proof (cs_failure_BM c d S). destruct (cs_failure c d). cbn in *. split; auto.
  - destruct cf as [c|]; cbn; split; try (apply BM_refl; auto); exact Hc.
  - destruct cf as [c|]; cbn; [|split; [apply BM_refl; auto|exact Hc]].
    pose proof (Hc c eq_refl) as <-.
    pose proof (do_check_BM c d ch r0 S). destruct (do_check c d ch r0) as [[? ?] ?]. cbn in *. split; auto.
  - destruct cf as [c|]; cbn; [|split; [apply BM_refl; auto|exact Hc]].
    pose proof (Hc c eq_refl) as <-.
    pose proof (do_update_BM c d ch r0 dl S). destruct (do_update c d ch r0 dl) as [[? ?] ?]. cbn in *. split; auto.
  - split; [|exact Hc]. destruct g; cbn in *; try contradiction.
    + destruct (arts d n); [split; [apply stable_set_arts; auto|apply incl_refl]|apply BM_refl; auto].
    + split; [apply stable_set_arts; auto|apply incl_refl].
    + split; [apply stable_set_arts; auto|apply incl_refl].
    + split; [apply stable_set_junk; auto|apply incl_refl].
Qed.

End Ban.
