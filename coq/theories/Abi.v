(* Abi.v — a small C type algebra and struct layout, used by the generated ABI tables (C15). *)
From Coq Require Import List ZArith String Bool.
Import ListNotations.
Open Scope string_scope.

Inductive cty :=
| TVoid | TBool | TI32 | TI64 | TU8 | TInt | TUSize | TChar
| TPtr (t : cty)                 (* constness is erased: Dart's ffi.Pointer carries none *)
| TStruct (n : string)
| TFn (args : list cty) (ret : cty).

Fixpoint cty_eqb (a b : cty) : bool :=
  match a, b with
  | TVoid, TVoid | TBool, TBool | TI32, TI32 | TI64, TI64 | TU8, TU8 | TInt, TInt
  | TUSize, TUSize | TChar, TChar => true
  | TPtr x, TPtr y => cty_eqb x y
  | TStruct n, TStruct m => String.eqb n m
  | TFn xs x, TFn ys y =>
      (fix go (l1 l2 : list cty) : bool :=
         match l1, l2 with
         | [], [] => true
         | p :: r1, q :: r2 => cty_eqb p q && go r1 r2
         | _, _ => false
         end) xs ys && cty_eqb x y
  | _, _ => false
  end.

Fixpoint list_eqb {A} (eqb : A -> A -> bool) (l1 l2 : list A) : bool :=
  match l1, l2 with
  | [], [] => true
  | a :: r1, b :: r2 => eqb a b && list_eqb eqb r1 r2
  | _, _ => false
  end.

Definition fn_eqb (a b : string * list cty * cty) : bool :=
  let '(n1, a1, r1) := a in let '(n2, a2, r2) := b in
  String.eqb n1 n2 && list_eqb cty_eqb a1 a2 && cty_eqb r1 r2.

Definition field_eqb (a b : string * cty) : bool :=
  String.eqb (fst a) (fst b) && cty_eqb (snd a) (snd b).
Definition struct_eqb (a b : string * list (string * cty)) : bool :=
  String.eqb (fst a) (fst b) && list_eqb field_eqb (snd a) (snd b).
Definition const_eqb (a b : string * Z) : bool := String.eqb (fst a) (fst b) && Z.eqb (snd a) (snd b).

(* every entry of [sub] occurs in [sup] *)
Definition subset_by {A} (eqb : A -> A -> bool) (sub sup : list A) : bool :=
  forallb (fun x => existsb (eqb x) sup) sub.

(* data models *)
Inductive abi := LP64 | ILP32 | LLP64.
Definition ptr_size (a : abi) : Z := match a with ILP32 => 4 | _ => 8 end%Z.

(* size and alignment of scalar / pointer types (struct-typed fields do not occur in these tables) *)
Definition size_align (a : abi) (t : cty) : Z * Z :=
  match t with
  | TVoid => (0, 1) | TBool => (1, 1) | TU8 => (1, 1) | TChar => (1, 1)
  | TI32 => (4, 4) | TInt => (4, 4) | TI64 => (8, 8)
  | TUSize => (ptr_size a, ptr_size a)
  | TPtr _ | TFn _ _ => (ptr_size a, ptr_size a)
  | TStruct _ => (0, 1)
  end%Z.

Definition align_up (off al : Z) : Z := ((off + al - 1) / al * al)%Z.

(* offsets of the fields, total size, alignment *)
Fixpoint layout_go (a : abi) (fs : list (string * cty)) (off maxal : Z) (acc : list Z) : list Z * Z * Z :=
  match fs with
  | [] => (rev acc, align_up off maxal, maxal)
  | (_, t) :: r =>
      let '(sz, al) := size_align a t in
      let o := align_up off al in
      layout_go a r (o + sz)%Z (Z.max maxal al) (o :: acc)
  end.
Definition layout (a : abi) (fs : list (string * cty)) : list Z * Z * Z := layout_go a fs 0%Z 1%Z [].
