(* Handout.v — C01/C07: whatever is reported for boot is intact (and signed); C02: a banned number
   is never handed out, downloaded or installed again. *)
From UV Require Import Base Codec Model PMLemmas Inv Ban.
Arguments N.eqb : simpl never.

Section Handout.
Variable sha : bytes -> bytes.
Variable sigok : string -> string -> string -> bool.
Variable zdec : bytes -> bytes.
Variable base : bytes.

Notation validate := (validate sha sigok).
Notation fall_back := (fall_back sha sigok).
Notation next_boot := (next_boot sha sigok).
Notation cs_next := (cs_next sha sigok).
Notation cs_start := (cs_start sha sigok).
Notation cs_rollback := (cs_rollback sha sigok).
Notation should_install := (should_install sha sigok).
Notation do_check := (do_check sha sigok).
Notation do_update := (do_update sha sigok zdec base).
Notation step := (step sha sigok zdec base).
Notation run := (run sha sigok zdec base).

(* the explicit reading of "intact and verified" *)
Definition intact (key : option string) (d : disk) (n : N) : Prop :=
  exists m b,
    nb (load_p d) = Some m /\ m_num m = n /\
    arts d n = Some (AFile b) /\ blen b = m_size m /\
    (forall k, key = Some k ->
               exists s, m_sig m = Some s /\ sigok k (hex_of_bytes (sha b)) s = true).

Lemma validate_intact key d m :
  nb (load_p d) = Some m -> validate key d m = true -> intact key d (m_num m).
Proof.
  intros Hn Hv. unfold Model.validate in Hv.
  destruct (arts d (m_num m)) as [[|b]|] eqn:Ea; try discriminate.
  apply andb_prop in Hv. destruct Hv as [Hs Hk]. apply N.eqb_eq in Hs.
  exists m, b. repeat split; auto.
  intros k ->. destruct (m_sig m) as [s|]; [|discriminate]. exists s. auto.
Qed.

Lemma selected_intact key d n : selected sha sigok key d (load_p d) n -> intact key d n.
Proof. intros [m (H1 & <- & H3)]. apply validate_intact; auto. Qed.

Lemma cs_next_intact c d d' n : cs_next c d = (d', Some n) -> intact (c_key c) d' n.
Proof.
  unfold Model.cs_next.
  destruct (next_boot (c_key c) (norm c d) (load_p (norm c d))) as [[d1 s1] r] eqn:E.
  intros H. injection H as <- ->.
  apply selected_intact. rewrite (next_boot_load _ _ _ _ _ _ _ E).
  eapply next_boot_selected; eauto.
Qed.

(* launch start: either nothing is handed to the engine (CB untouched) or CB := the validated NB *)
Lemma cs_start_intact c d :
  match snd (cs_next c d) with
  | Some n => cb (load_p (cs_start c d)) = nb (load_p (cs_start c d)) /\ intact (c_key c) (cs_start c d) n
  | None => cb (load_p (cs_start c d)) = cb (load_p (norm c d))
  end.
Proof.
  unfold Model.cs_next, Model.cs_start.
  pose proof (next_boot_cb sha sigok (c_key c) (norm c d) (load_p (norm c d))) as Hcb.
  destruct (next_boot (c_key c) (norm c d) (load_p (norm c d))) as [[d1 s1] r] eqn:E. cbn in *.
  destruct r as [n|].
  - rewrite load_save. cbn. split; auto.
    pose proof (next_boot_selected _ _ _ _ _ _ _ _ E) as [m (H1 & H2 & H3)].
    exists m. unfold Model.validate in H3. cbn.
    destruct (arts d1 (m_num m)) as [[|b]|] eqn:Ea; try discriminate.
    apply andb_prop in H3. destruct H3 as [Hs Hk]. apply N.eqb_eq in Hs.
    exists b. subst n. repeat split; auto.
    intros k Ek. rewrite Ek in Hk. destruct (m_sig m) as [s|]; [|discriminate]. exists s. auto.
  - rewrite (next_boot_load _ _ _ _ _ _ _ E). exact Hcb.
Qed.

(* what a call reports as next boot patch *)
Definition reports (o : op) (x : out) (n : N) : Prop :=
  (o = ONextNum /\ x = RNum n /\ n <> 0) \/ (o = ONextPath /\ x = RPath (Some n)).

Local Opaque Model.cs_next.
Theorem step_handout w o w' x log n :
  step w o = (w', x, log) -> reports o x n ->
  exists c, w_cfg w' = Some c /\ intact (c_key c) (w_disk w') n.
Proof.
  intros Hs [(-> & -> & Hn) | (-> & ->)]; destruct w as [d [c|]]; cbn in Hs.
  - destruct (cs_next c d) as [d1 r] eqn:E. cbn in Hs.
    assert (Hw : w' = {| w_disk := d1; w_cfg := Some c |}) by congruence.
    assert (Hr : match r with Some k => k | None => 0 end = n) by congruence.
    subst w'. destruct r as [k|]; [|congruence]. subst k.
    exists c. split; auto. cbn. eapply cs_next_intact; eauto.
  - assert (Hr : 0 = n) by congruence. congruence.
  - destruct (cs_next c d) as [d1 r] eqn:E. cbn in Hs.
    assert (Hw : w' = {| w_disk := d1; w_cfg := Some c |}) by congruence.
    assert (Hr : r = Some n) by congruence. subst w' r.
    exists c. split; auto. cbn. eapply cs_next_intact; eauto.
  - assert (Hr : @None N = Some n) by congruence. discriminate.
Qed.

Local Transparent Model.cs_next.
(* if the stored selection is not valid it is never the number reported *)
Theorem cs_next_invalid_not_reported c d m :
  nb (load_p (norm c d)) = Some m -> validate (c_key c) (norm c d) m = false ->
  snd (cs_next c d) <> Some (m_num m) /\
  snd (cs_next c d) =
    onum (match lb (load_p (norm c d)) with
          | Some l => if negb (N.eqb (m_num l) (m_num m)) &&
                         validate (c_key c) (del_art (norm c d) (m_num m)) l
                      then Some l else None
          | None => None
          end).
Proof.
  intros Hn Hv. unfold Model.cs_next, Model.next_boot. rewrite Hn, Hv.
  pose proof (fall_back_nb_not_bad sha sigok (c_key c) (norm c d) (load_p (norm c d)) (m_num m)) as H1.
  pose proof (fall_back_target sha sigok (c_key c) (norm c d) (load_p (norm c d)) (m_num m)) as H2.
  destruct (fall_back (c_key c) (norm c d) (load_p (norm c d)) (m_num m)) as [d1 s1]. cbn in *.
  rewrite Hn in H2. cbn in H2. rewrite N.eqb_refl in H2. specialize (H2 eq_refl).
  split.
  - destruct (nb s1) as [x|]; cbn in *; [|discriminate]. intros E. injection E as E.
    apply N.eqb_neq in H1. contradiction.
  - rewrite H2. reflexivity.
Qed.

(* ---------- C02: offers of a banned number ---------- *)
Lemma cs_rollback_bad c d l : bad (load_p (cs_rollback c d l)) = bad (load_p (norm c d)).
Proof.
  unfold Model.cs_rollback. destruct l as [|x l]; [reflexivity|].
  rewrite rollback_loop_load by discriminate. apply rollback_loop_bad.
Qed.

Lemma norm_cs_rollback c d l : norm c (cs_rollback c d l) = cs_rollback c d l.
Proof.
  apply norm_id. unfold Model.cs_rollback.
  eapply stable_of_sj; [apply rollback_loop_sj|apply norm_stable].
Qed.

Lemma should_install_banned c d n :
  In n (bad (load_p (norm c d))) -> should_install c d n = (norm c d, ShBad).
Proof. intros H. unfold Model.should_install. cbn. apply inb_In in H. rewrite H. reflexivity. Qed.

Definition no_download (l : list netobs) : Prop := forall u, ~ In (NDownload u) l.

Lemma no_download_events evs q : no_download (map NEvent evs ++ [NCheck q]).
Proof.
  intros u H. apply in_app_or in H. destruct H as [H|[H|[]]]; [|discriminate].
  apply in_map_iff in H. destruct H as [e [E _]]. discriminate.
Qed.

Theorem update_offer_of_banned c d ch rs p dl :
  stable (c_rel c) d -> In (p_num p) (bad (load_p d)) ->
  r_avail rs = true -> r_patch rs = Some p ->
  let '(d', st, log) := do_update c d ch (Some rs) dl in
  st = UBadPatch /\ no_download log /\ In (p_num p) (bad (load_p d')).
Proof.
  intros S Hb Ha Hp. unfold Model.do_update.
  cbn [cs_copy_events]. rewrite (norm_id c d S).
  set (d1 := cs_clear_events c d).
  assert (S1 : stable (c_rel c) d1) by (apply (cs_clear_events_BM c d S)).
  assert (B1 : In (p_num p) (bad (load_p d1))).
  { unfold d1, Model.cs_clear_events. rewrite load_set_sj, (norm_id c d S). exact Hb. }
  rewrite Ha, Hp. cbn [negb].
  set (d2 := match r_rb rs with Some l => cs_rollback c d1 l | None => d1 end).
  assert (B2 : In (p_num p) (bad (load_p (norm c d2)))).
  { unfold d2. destruct (r_rb rs) as [l|].
    - rewrite norm_cs_rollback, cs_rollback_bad, (norm_id c d1 S1). exact B1.
    - rewrite (norm_id c d1 S1). exact B1. }
  rewrite (should_install_banned c d2 (p_num p) B2).
  split; [reflexivity|]. split; [apply no_download_events|exact B2].
Qed.

Theorem check_offer_of_banned c d ch rs p :
  stable (c_rel c) d -> In (p_num p) (bad (load_p d)) -> r_patch rs = Some p ->
  snd (fst (do_check c d ch (Some rs))) = false.
Proof.
  intros S Hb Hp. unfold Model.do_check. rewrite Hp.
  set (d2 := match r_rb rs with Some l => cs_rollback c d l | None => d end).
  assert (B2 : In (p_num p) (bad (load_p (norm c d2)))).
  { unfold d2. destruct (r_rb rs) as [l|].
    - rewrite norm_cs_rollback, cs_rollback_bad, (norm_id c d S). exact Hb.
    - rewrite (norm_id c d S). exact Hb. }
  rewrite (should_install_banned c d2 (p_num p) B2). reflexivity.
Qed.

Lemma update_unavailable c d ch rs dl :
  r_avail rs = false ->
  snd (fst (do_update c d ch (Some rs) dl)) = UNoUpdate /\ no_download (snd (do_update c d ch (Some rs) dl)).
Proof.
  intros Ea. unfold Model.do_update. cbn [cs_copy_events]. rewrite Ea. cbn [negb]. cbn [fst snd].
  split; [reflexivity|apply no_download_events].
Qed.

(* a failure report / crash detection bans the booting patch *)
Theorem failure_bans c d m :
  cb (load_p (norm c d)) = Some m -> In (m_num m) (bad (load_p (fst (cs_failure sha sigok c d)))).
Proof.
  intros H. unfold Model.cs_failure. rewrite H.
  pose proof (boot_failure_saved sha sigok (c_key c) (norm c d) (load_p (norm c d)) (m_num m)) as H2.
  pose proof (boot_failure_bans sha sigok (c_key c) (norm c d) (load_p (norm c d)) (m_num m)) as H3.
  destruct (boot_failure sha sigok (c_key c) (norm c d) (load_p (norm c d)) (m_num m)) as [d1 s1].
  cbn in *. unfold queue_event. rewrite load_set_sj, (load_of_pj _ _ H2). exact H3.
Qed.

Theorem crash_detection_bans c d m :
  cb (load_p (norm c d)) = Some m -> In (m_num m) (bad (load_p (cs_init_recover sha sigok c d))).
Proof.
  intros H. unfold Model.cs_init_recover. rewrite H.
  pose proof (boot_failure_saved sha sigok (c_key c) (norm c d) (load_p (norm c d)) (m_num m)) as H2.
  pose proof (boot_failure_bans sha sigok (c_key c) (norm c d) (load_p (norm c d)) (m_num m)) as H3.
  destruct (boot_failure sha sigok (c_key c) (norm c d) (load_p (norm c d)) (m_num m)) as [d1 s1].
  cbn in *. unfold queue_event. rewrite load_set_sj, (load_of_pj _ _ H2). exact H3.
Qed.

(* ---------- C02 over whole histories ---------- *)
(* the facts that make "n is banned" permanent within release r *)
Definition Banned (r : string) (n : N) (w : world) : Prop :=
  stable r (w_disk w) /\ IbanD (w_disk w) /\ In n (bad (load_p (w_disk w))) /\
  (forall c, w_cfg w = Some c -> c_rel c = r).

Lemma within_not_pj r w o : within r w o -> ~ pj_damage o.
Proof. intros [_ H] Hd. destruct o; try contradiction. destruct g; contradiction. Qed.

Theorem Banned_step r n w o : within r w o -> Banned r n w -> Banned r n (fst (fst (step w o))).
Proof.
  intros Hw (S & I & B & C).
  destruct (step_BM sha sigok zdec base r w o Hw S) as [[S' M] C'].
  split; [exact S'|]. split; [apply step_IbanD; auto; eapply within_not_pj; eauto|].
  split; [apply M, B|exact C'].
Qed.

(* what a single call may not do with a banned number *)
Definition respects_ban (n : N) (o : op) (x : out) (log : list netobs) : Prop :=
  ~ reports o x n /\
  match o with
  | OUpdate _ (Some rs) _ =>
      match r_patch rs with
      | Some p => p_num p = n ->
                  x <> RStatus 1 /\ no_download log /\
                  (r_avail rs = true -> (exists q, In (NCheck q) log) -> x = RStatus 3)
      | None => True
      end
  | OCheck _ (Some rs) =>
      match r_patch rs with
      | Some p => p_num p = n -> x = RBool false
      | None => True
      end
  | _ => True
  end.

Lemma intact_not_banned key d n : IbanD d -> intact key d n -> ~ In n (bad (load_p d)).
Proof.
  intros I (m & b & H1 & H2 & _) Hb. destruct (I n Hb) as [H _]. rewrite H1 in H.
  apply numeq_false_some in H. contradiction.
Qed.

Local Opaque Model.do_check Model.do_update.
Theorem Banned_respected r n w o :
  within r w o -> Banned r n w ->
  let '(w', x, log) := step w o in respects_ban n o x log.
Proof.
  intros Hw HB. pose proof (Banned_step r n w o Hw HB) as HB'.
  destruct (step w o) as [[w' x] log] eqn:E. cbn in HB'.
  destruct HB as (S & I & B & C). destruct HB' as (S' & I' & B' & C').
  split.
  - intros Hr. destruct (step_handout w o w' x log n E Hr) as [c [_ Hi]].
    eapply intact_not_banned; eauto.
  - destruct o; auto; destruct r0 as [rs|]; auto; destruct (r_patch rs) as [p|] eqn:Ep; auto; intros <-.
    + (* check *)
      destruct w as [d [c|]]; cbn in E.
      * pose proof (check_offer_of_banned c d ch rs p) as H. cbn in C. rewrite (C c eq_refl) in H.
        specialize (H S B Ep).
        destruct (do_check c d ch (Some rs)) as [[d1 b1] l1]. cbn in H, E. injection E as _ <- _. subst. reflexivity.
      * injection E as _ <- _. reflexivity.
    + (* update *)
      destruct w as [d [c|]]; cbn in E.
      * cbn in C. pose proof (C c eq_refl) as Er.
        destruct (r_avail rs) eqn:Ea.
        -- pose proof (update_offer_of_banned c d ch rs p dl) as H. rewrite Er in H.
           specialize (H S B Ea Ep).
           destruct (do_update c d ch (Some rs) dl) as [[d1 st] l1]. destruct H as (-> & H2 & _).
           cbn in E. injection E as _ <- <-. cbn. split; [discriminate|]. split; auto.
        -- destruct (update_unavailable c d ch rs dl Ea) as [H1 H2].
           destruct (do_update c d ch (Some rs) dl) as [[d1 st] l1]. cbn in H1, H2, E. subst st.
           injection E as _ <- <-. split; [discriminate|]. split; [exact H2|discriminate].
      * injection E as _ <- <-. split; [discriminate|]. split; [intros u []|intros _ [q []]].
Qed.

(* every later call of every history within the release respects the ban *)
Fixpoint all_within (r : string) (w : world) (ops : list op) : Prop :=
  match ops with
  | [] => True
  | o :: rest => within r w o /\ all_within r (fst (fst (step w o))) rest
  end.

Fixpoint all_respect (n : N) (w : world) (ops : list op) : Prop :=
  match ops with
  | [] => True
  | o :: rest => (let '(_, x, log) := step w o in respects_ban n o x log) /\
                 all_respect n (fst (fst (step w o))) rest
  end.

Theorem banned_forever r n ops : forall w,
  Banned r n w -> all_within r w ops -> all_respect n w ops.
Proof.
  induction ops as [|o rest IH]; intros w HB HW; cbn; auto.
  destruct HW as [Hw HW]. split.
  - pose proof (Banned_respected r n w o Hw HB) as H. destruct (step w o) as [[? ?] ?]. exact H.
  - apply IH; auto. apply Banned_step; auto.
Qed.

End Handout.
